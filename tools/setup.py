#!/usr/bin/env python3
"""setup: nothing is built ahead of time (Verus units are generated per run); verify the tools are present."""
import shutil, subprocess, sys, os
ok = True
for t in ("verus", "cargo", "python3"):
    if not shutil.which(t):
        print("missing tool:", t); ok = False
os.makedirs(os.path.join(os.path.dirname(os.path.dirname(os.path.abspath(__file__))), "gen"), exist_ok=True)
os.makedirs(os.path.join(os.path.dirname(os.path.dirname(os.path.abspath(__file__))), "evidence"), exist_ok=True)
print("setup ok" if ok else "setup failed")
sys.exit(0 if ok else 1)
