#!/usr/bin/env python3
"""Regenerate MANIFEST.json from tools/props.json (claimed checks) and tools/na.json (not-applicable list)."""
import json, os
V = os.path.dirname(os.path.dirname(os.path.abspath(__file__)))
props = json.load(open(os.path.join(V, "tools", "props.json")))
na = json.load(open(os.path.join(V, "tools", "na.json")))
ids = [json.loads(l)["id"] for l in open(os.path.join(V, "properties.jsonl")) if l.strip()]
checks = []
for pid in ids:
    if pid not in props:
        continue
    c = props[pid]
    checks.append({
        "property_id": pid,
        "quick_cmd": "./check %s --tier quick" % pid,
        "thorough_cmd": "./check %s --tier thorough" % pid,
        "evidence_file": "/verif/evidence/%s.json" % pid,
        "replay_cmd_template": "./check %s --replay {path}" % pid,
        "engine": "verus+kani" if c.get("kani") else "verus",
        "level_claimed": {"category": c.get("level", "proof"), "text": c["level_text"], "design_ref": c.get("design_ref", "DESIGN.md §6 " + pid)},
        "level_note": c["level_note"],
        "technique": c.get("technique", "contract-based deductive verification (Verus requires/ensures on functions extracted from /repo each run)"),
    })
man = {
    "version": 1,
    "setup_cmd": "python3 tools/setup.py",
    "hooks": {
        "guard": "cfg(kani)",
        "enable": "no hook lives in /repo: Kani harness modules are appended to a scratch copy of /repo's working tree under #[cfg(kani)] on every run; Verus text is re-extracted from /repo on every run",
        "baseline_off_cmd": "cd /repo && cargo test --workspace --no-fail-fast --offline",
        "source_commits": [],
        "add_only": True,
    },
    "engines": [
        {"name": "verus", "path": "/verif/tools/vrun.py", "serves_properties": [p for p in ids if p in props and props[p].get("units")],
         "kind_free_text": "deductive verifier (SMT, Z3) on functions extracted mechanically from /repo with spliced contracts"},
        {"name": "kani", "path": "/verif/tools/krun.py", "serves_properties": [p for p in ids if p in props and props[p].get("kani")],
         "kind_free_text": "CBMC-based model checker; loop-free full-domain harnesses and function contracts on the unmodified crate (scratch copy)"},
    ],
    "checks": checks,
    "notes": "See DESIGN.md. exit 0 = every obligation discharged; exit 1 = VIOLATION (a named obligation failed); exit 2 = UNDECIDED (lost anchor / unsupported construct / rlimit), never an alarm.",
    "not_applicable": [{"property_id": p, "reason": na[p]} for p in ids if p not in props],
}
for p in ids:
    if p not in props and p not in na:
        raise SystemExit("property %s neither claimed nor in na.json" % p)
json.dump(man, open(os.path.join(V, "MANIFEST.json"), "w"), indent=1)
print("MANIFEST.json: %d checks, %d not_applicable" % (len(checks), len(man["not_applicable"])))
