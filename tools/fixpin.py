#!/usr/bin/env python3
"""For every `fixed` entry of known_findings.json: revert that /repo commit in a scratch worktree and run the property's
quick check against it (VERIF_REPO).  A fix is *pinned* when the check then exits 1 (the violation returns).
Writes seeded/fix-reverts.json.  Never touches /repo's working tree."""
import json, os, subprocess, sys
V = os.path.dirname(os.path.dirname(os.path.abspath(__file__)))
WT = "/var/tmp/verif-fixpin-wt"
ENV = dict(os.environ, VERIF_REPO=WT, VERIF_EVIDENCE_DIR="/var/tmp/verif-fixpin-evidence")
subprocess.run(["git", "-C", "/repo", "worktree", "remove", "--force", WT], capture_output=True)
subprocess.run(["git", "-C", "/repo", "worktree", "add", "-f", "--detach", WT, "HEAD"], check=True, capture_output=True)
known = json.load(open(os.path.join(V, "known_findings.json")))["findings"]
props = json.load(open(os.path.join(V, "tools", "props.json")))
only = sys.argv[1:]
out = {}
seen = set()
for f in known:
    if f.get("status") != "fixed" or not f.get("commit") or f["commit"] in seen:
        continue
    if only and f["commit"] not in only:
        continue
    seen.add(f["commit"])
    c, pid = f["commit"], f["property"]
    subprocess.run(["git", "-C", WT, "reset", "-q", "--hard", "HEAD"], check=True)
    r = subprocess.run(["git", "-C", WT, "revert", "--no-commit", c], capture_output=True, text=True)
    if r.returncode != 0:
        subprocess.run(["git", "-C", WT, "revert", "--abort"], capture_output=True)
        subprocess.run(["git", "-C", WT, "reset", "-q", "--hard", "HEAD"], check=True)
        out[c] = {"property": pid, "reverted": False, "note": "revert conflicts with a later commit"}
        print(c, pid, "REVERT-CONFLICT"); continue
    if pid not in props:
        out[c] = {"property": pid, "reverted": True, "exit": None, "note": "property not claimed"}; print(c, pid, "not claimed"); continue
    p = subprocess.run([os.path.join(V, "check"), pid, "--tier", "quick"], cwd=V, capture_output=True, text=True, env=ENV)
    lines = [l for l in p.stdout.split("\n") if l.startswith(("VIOLATION", "UNDECIDED"))]
    obs = []
    for l in lines:
        if l.startswith("VIOLATION"):
            rp = l.split("replay=")[1].split()[0]
            try:
                d = json.load(open(rp)); obs.append({"obligation": d.get("obligation"), "inputs": d.get("inputs"), "reproduced": d.get("reproduced")})
            except Exception:
                pass
    out[c] = {"property": pid, "reverted": True, "exit": p.returncode, "pinned": p.returncode == 1, "violations": obs[:4], "lines": lines[:4]}
    print(c, pid, "PINNED" if p.returncode == 1 else "NOT-PINNED exit=%s" % p.returncode, [o["obligation"] for o in obs][:3])
    json.dump(out, open(os.path.join(V, "seeded", "fix-reverts.json"), "w"), indent=1)
subprocess.run(["git", "-C", "/repo", "worktree", "remove", "--force", WT], capture_output=True)
import shutil; shutil.rmtree("/var/tmp/verif-fixpin-evidence", ignore_errors=True)
