#!/usr/bin/env python3
"""Kani runner: copy /repo's working tree to a scratch dir, append `#[cfg(kani)] mod` blocks that include the harness
files of /verif/kani, run `cargo kani` per harness, parse results (+ concrete playback values on failure).

Harness file header (comment lines at the top of /verif/kani/<group>.rs):
    // inject: src/options.rs            file whose private items the harnesses need (module appended there)
Per harness, comment lines directly above `#[kani::proof]`:
    // bounded: <text>                   bounded stand-in, reported, never counted as proved
    // tier: thorough                    only run at the thorough tier
    // timeout: <seconds>
"""
import concurrent.futures as cf
import os
import re
import shutil
import subprocess
import time

VERIF = os.path.dirname(os.path.dirname(os.path.abspath(__file__)))
REPO = os.environ.get("VERIF_REPO", "/repo")
SCRATCH_ROOT = "/var/tmp"


def parse_group(group):
    path = os.path.join(VERIF, "kani", group + ".rs")
    text = open(path).read()
    inject = re.search(r"^// inject: (\S+)", text, re.M).group(1)
    harnesses = []
    lines = text.split("\n")
    for i, ln in enumerate(lines):
        if ln.strip().startswith("#[kani::proof"):
            meta = {"bounded": None, "tier": "quick", "timeout": 600}
            j = i - 1
            while j >= 0 and lines[j].strip().startswith("//"):
                m = re.match(r"\s*// (bounded|tier|timeout): (.*)$", lines[j])
                if m:
                    meta[m.group(1)] = m.group(2).strip() if m.group(1) != "timeout" else int(m.group(2))
                j -= 1
            k = i + 1
            while k < len(lines) and not re.search(r"\bfn\s+([A-Za-z_0-9]+)", lines[k]):
                k += 1
            meta["name"] = re.search(r"\bfn\s+([A-Za-z_0-9]+)", lines[k]).group(1)
            harnesses.append(meta)
    stubs = re.findall(r"#\[kani::stub\(([^)]*)\)\]", text)
    return {"group": group, "path": path, "inject": inject, "harnesses": harnesses, "stubs": sorted(set(stubs))}


def make_scratch(groups):
    d = os.path.join(SCRATCH_ROOT, "verif-kani-%d" % os.getpid())
    if os.path.exists(d):
        shutil.rmtree(d)
    subprocess.run(["rsync", "-a", "--exclude", "target", "--exclude", ".git", REPO + "/", d + "/"], check=True)
    for g in groups:
        tgt = os.path.join(d, g["inject"])
        if not os.path.exists(tgt):
            raise RuntimeError("inject target missing: " + g["inject"])
        with open(tgt, "a") as f:
            f.write("\n#[cfg(kani)]\nmod verif_kani_%s {\n    use super::*;\n    include!(\"%s\");\n}\n" % (g["group"], g["path"]))
    cfgdir = os.path.join(d, ".cargo")
    os.makedirs(cfgdir, exist_ok=True)
    with open(os.path.join(cfgdir, "config.toml"), "a") as f:
        f.write("\n[net]\noffline = true\n")
    return d


def run_killable(cmd, cwd, env, timeout):
    """run in its own process group; on timeout kill the whole group (cargo kani leaves cbmc children behind otherwise)"""
    import signal
    p = subprocess.Popen(cmd, cwd=cwd, env=env, stdout=subprocess.PIPE, stderr=subprocess.STDOUT, text=True, start_new_session=True)
    try:
        out, _ = p.communicate(timeout=timeout)
        return p.returncode, out
    except subprocess.TimeoutExpired:
        try:
            os.killpg(p.pid, signal.SIGKILL)
        except Exception:
            pass
        p.communicate()
        return None, ""


def run_harness(scratch, h, target_dir):
    t0 = time.time()
    cmd = ["cargo", "kani", "-Z", "function-contracts", "-Z", "stubbing", "--harness", h["name"], "--output-format", "terse",
           "--target-dir", target_dir]
    env = dict(os.environ, CARGO_NET_OFFLINE="true")
    rc, out = run_killable(cmd, scratch, env, h["timeout"])
    if rc is None:
        return dict(h, status="undecided", detail="timeout after %ds" % h["timeout"], time_s=time.time() - t0)
    res = dict(h, time_s=round(time.time() - t0, 2))
    if "VERIFICATION:- SUCCESSFUL" in out:
        # vacuity: harnesses carry kani::cover!() after their assumptions; an unsatisfiable cover means nothing was checked
        if re.search(r"cover.*UNSATISFIABLE|UNSATISFIABLE.*cover", out) or "UNREACHABLE" in out and "cover" in out:
            res.update(status="undecided", detail="vacuous: a cover!() is unsatisfiable")
        else:
            res.update(status="ok", detail="")
    elif "VERIFICATION:- FAILED" in out:
        fails = re.findall(r"Failed Checks: (.*)", out)
        res.update(status="failed", detail="; ".join(fails[:6])[:800])
        if "unwinding assertion" in res["detail"]:
            res.update(status="undecided", detail="unwinding assertion failed: " + res["detail"])
    else:
        res.update(status="undecided", detail="kani produced no verdict: " + out[-600:])
    res["raw_tail"] = out[-1500:]
    return res


def playback(scratch, h, target_dir):
    """concrete playback values for a failed harness"""
    cmd = ["cargo", "kani", "-Z", "function-contracts", "-Z", "stubbing", "-Z", "concrete-playback", "--concrete-playback=print",
           "--harness", h["name"], "--target-dir", target_dir]
    rc, out = run_killable(cmd, scratch, dict(os.environ, CARGO_NET_OFFLINE="true"), h["timeout"])
    if rc is None:
        return None
    blocks = re.findall(r"```\n(.*?)```", out, re.S)
    blocks = [b for b in blocks if "Check for `cover`" not in b] or blocks
    if not blocks:
        return None
    b = blocks[0]
    vals = re.findall(r"//\s*(-?[0-9][^\n]*)\n\s*vec!\[([^\]]*)\]", b)
    why = re.search(r"Check for `[a-z_]+`: \"([^\"]*)\"", b)
    return {"values": [v[0].strip() for v in vals], "failed_check": why.group(1) if why else None, "playback_test": b[:3000]}


def run_groups(names, tier, seed):
    groups = [parse_group(n) for n in names]
    scratch = make_scratch(groups)
    target_dir = os.path.join(VERIF, ".cache", "kani-target")
    os.makedirs(target_dir, exist_ok=True)
    results = []
    try:
        todo = []
        for g in groups:
            for h in g["harnesses"]:
                if h["tier"] == "thorough" and tier != "thorough":
                    continue
                only = os.environ.get("VERIF_KANI_ONLY")
                if only and h["name"] not in only.split(","):
                    continue
                todo.append((g, h))
        if not todo:
            return []
        # first harness alone (builds the crate), the rest in parallel
        done = {}
        g0, h0 = todo[0]
        done[(g0["group"], h0["name"])] = run_harness(scratch, h0, target_dir)
        with cf.ThreadPoolExecutor(max_workers=6) as ex:
            futs = {ex.submit(run_harness, scratch, h, target_dir): (g, h) for (g, h) in todo[1:]}
            for f in cf.as_completed(futs):
                g, h = futs[f]
                done[(g["group"], h["name"])] = f.result()
        for g in groups:
            hs = []
            for h in g["harnesses"]:
                r = done.get((g["group"], h["name"]))
                if r is None:
                    continue
                if r["status"] == "failed":
                    r["counterexample"] = playback(scratch, h, target_dir)
                hs.append(r)
            results.append({"group": g["group"], "harnesses": hs,
                            "trusted": ["kani::stub %s" % s for s in g["stubs"]] + ["CBMC 6.11 bit-precise semantics incl. IEEE-754 floats; Kani 0.68 MIR translation"]})
    finally:
        shutil.rmtree(scratch, ignore_errors=True)
    return results


if __name__ == "__main__":
    import json
    import sys
    r = run_groups(sys.argv[1:2], sys.argv[2] if len(sys.argv) > 2 else "quick", 0)
    for g in r:
        for h in g["harnesses"]:
            print(h["name"], h["status"], h["time_s"], h.get("detail", "")[:300], (h.get("counterexample") or {}).get("values"))
