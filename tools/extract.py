#!/usr/bin/env python3
"""Mechanical extractor + contract splicer.

Reads a unit template (units/<unit>.vrs: hand-written Verus specs/lemmas plus
`//@` directives), pulls the *current* text of the named items out of /repo and
emits one Verus file.  The body of every extracted function is the text found in
/repo at the time of the run; the only rewrites are the fixed rules listed in
RULES (reported in every evidence file) plus per-site `subst` directives, which
are listed verbatim in the evidence as well.

Directive grammar (all directive lines start with `//@`):

  //@include <path relative to /verif>           textual include (specs)
  //@fn <file> :: [impl <header> ::] <name>       extract function, prove it
  //@assume <unit>::<name>                        emit the same contract as in
                                                  units/<unit>.vrs, external_body
  //@item <file> :: <struct|enum|const|type> <name>
  //@end
 inside a //@fn block, sections (keyword at exactly one space after //@,
 continuation lines are indented deeper):
  //@ ret <ident>            name of the return value (default r)
  //@ requires / ensures / decreases / recommends  <clauses>
  //@ entry                  proof text inserted at function entry
  //@ loop <n>               invariant/decreases text for the n-th loop (1-based)
  //@ before "<pat>"         proof text inserted before the unique line containing pat
  //@ after "<pat>"          proof text inserted after the unique line containing pat
  //@ subst "<a>" => "<b>"   per-site textual substitution (listed in evidence)
  //@ attr <text>            attribute line(s) to put above the fn
  //@ name <ident>           rename the emitted fn (for trait-impl methods)
  //@ sigsubst "<a>" => "<b>" substitution applied to the signature only
"""
import json
import os
import re
import sys

VERIF = os.path.dirname(os.path.dirname(os.path.abspath(__file__)))
REPO = os.environ.get("VERIF_REPO", "/repo")

RULES = {
    "E1": "drop doc comments and attributes inline/must_use/allow/doc/non_exhaustive/cfg(feature)/repr; "
          "keep derives Clone,Copy,PartialEq,Eq,Default; drop Debug/PartialOrd/Ord/Hash (ordering is "
          "re-specified from the declared field order, E6); add Structural where PartialEq+Eq are derived",
    "E2": "pub(crate)/pub(super) -> pub",
    "E3": "`-> T` -> `-> (r: T)` and requires/ensures/decreases spliced after the signature",
    "E4": "temporal_assert!(c, ..) -> `if !(c) { return Err(TemporalError::assert()); }`; "
          "debug_assert!/assert!/assert_eq!/debug_assert_eq! -> Verus `assert(..)` proof obligations",
    "E5": "proof blocks at function entry / before or after an anchored line; loop invariants on the n-th loop",
    "E15": "`const N: T = e;` whose initialiser calls a function Verus cannot evaluate in spec mode -> "
           "`exec const N: T ensures N == <value> { e }`; the value is proved from e, not assumed",
    "E6": "derive(PartialOrd, Ord) kept; the lexicographic OrdSpecImpl/PartialOrdSpecImpl is generated from the extracted "
          "field / variant declaration order (so reordering the declaration changes the spec the way it changes the code)",
    "E9": "enum text tables: FromStr::from_str emitted verbatim as an inherent fn; Display::fmt must have the shape "
          "`match self { V => \"lit\", .. }.fmt(f)`, its arms are read (the `.fmt(f)` call is dropped) and one obligation "
          "`from_str(\"lit\") == Ok(V)` is generated per arm",
    "E8": "monomorphisation: a generic parameter (`mono T=i128`) or `Self` (`selftype i128`) is replaced textually by the "
          "concrete type named in the directive; the generic bound list is dropped",
    "E20": "FFI forwarding functions (temporal_capi): each `pub fn` of the ffi module whose body is one call chain is reduced to its call "
           "skeleton - receiver, callee path and the parameters in argument order; conversions (.into(), .try_into()?, .map(Into::into), "
           "&x.0, .clone(), into_converted_option) and the result suffix (.map(|x| Box::new(..)), .map_err(Into::into), Box::new(Self(..))) "
           "are dropped; callee and wrapper are compared through one uninterpreted function of (type, method name, argument list)",
    "E19": "format!(..) (error-message text only) -> \"\"; the TemporalError stand-in keeps the kind and drops the message",
    "E18": "compiled-data wrappers: `TZ_PROVIDER.lock().map_err(..)?` -> `acquire()?`, `&*provider` -> `provider.get()`; every type is an "
           "opaque stand-in; every core method is external_body with its own uninterpreted spec function",
    "E17": "deadtail: the part of a body after the ISO-calendar early return (calls into icu_calendar) is replaced by "
           "`unreached()`; Verus proves it unreachable under `requires <calendar is ISO>`, so only the ISO branch is claimed",
    "E16": "destructuring assignment `(a, b) = e;` -> `let t = e; a = t.0; b = t.1;` (Rust's own desugaring; Verus lacks it)",
    "E13": "`x op= e` on signed integers for op in {/,%} -> `x = x op e`",
}


class ExtractError(Exception):
    """Anchor lost / construct not understood -> UNDECIDED (exit 2), never an alarm."""


# ---------------------------------------------------------------------------
# lexical masking


def mask_source(src: str) -> str:
    """Return a string of the same length where comment text and the contents of
    string/char literals are replaced by spaces (newlines kept)."""
    out = list(src)
    i, n = 0, len(src)

    def blank(a, b):
        for k in range(a, b):
            if out[k] != "\n":
                out[k] = " "

    while i < n:
        c = src[i]
        if c == "/" and i + 1 < n and src[i + 1] == "/":
            j = src.find("\n", i)
            if j < 0:
                j = n
            blank(i, j)
            i = j
        elif c == "/" and i + 1 < n and src[i + 1] == "*":
            depth, j = 1, i + 2
            while j < n and depth:
                if src.startswith("/*", j):
                    depth += 1
                    j += 2
                elif src.startswith("*/", j):
                    depth -= 1
                    j += 2
                else:
                    j += 1
            blank(i, j)
            i = j
        elif c == '"' or (c in "rb" and re.match(r'(?:br|rb|r|b)#*"', src[i:i + 8]) and
                          (i == 0 or not (src[i - 1].isalnum() or src[i - 1] == "_"))):
            m = re.match(r'(br|rb|r|b)?(#*)"', src[i:i + 12])
            prefix, hashes = m.group(1) or "", m.group(2)
            start = i + m.end()
            if "r" in prefix:
                close = '"' + hashes
                j = src.find(close, start)
                if j < 0:
                    j = n
                blank(start, j)
                i = j + len(close)
            else:
                j = start
                while j < n and src[j] != '"':
                    j += 2 if src[j] == "\\" else 1
                blank(start, j)
                i = j + 1
        elif c == "'":
            # char literal or lifetime
            if i + 1 < n and src[i + 1] == "\\":
                j = src.find("'", i + 2)
                if src[i + 2] == "'":  # '\''
                    j = src.find("'", i + 3)
                blank(i + 1, j)
                i = j + 1
            elif i + 2 < n and src[i + 2] == "'":
                blank(i + 1, i + 2)
                i = i + 3
            else:
                i += 1
        else:
            i += 1
    return "".join(out)


def match_brace(masked: str, open_idx: int) -> int:
    pairs = {"{": "}", "(": ")", "[": "]"}
    o = masked[open_idx]
    c = pairs[o]
    depth = 0
    for k in range(open_idx, len(masked)):
        ch = masked[k]
        if ch == o:
            depth += 1
        elif ch == c:
            depth -= 1
            if depth == 0:
                return k
    raise ExtractError("unbalanced %s at %d" % (o, open_idx))


def find_at_depth0(masked: str, start: int, end: int, chars: str) -> int:
    """first index in [start,end) of any char in `chars` outside () [] {} <>-agnostic nesting"""
    depth = 0
    k = start
    while k < end:
        ch = masked[k]
        if depth == 0 and ch in chars:
            return k
        if ch in "([{":
            depth += 1
        elif ch in ")]}":
            depth -= 1
        k += 1
    return -1


ITEM_RE = re.compile(r"\b(fn|struct|enum|union|trait|impl|mod|const|static|type|macro_rules|use|extern)\b")


class Item:
    __slots__ = ("kind", "name", "header", "start", "kw", "open", "end", "attrs_start")

    def __repr__(self):
        return "<%s %s %s>" % (self.kind, self.name, self.header)


def scan_items(src: str, masked: str, start: int, end: int):
    """Yield items found at nesting depth 0 of region [start,end)."""
    k = start
    while k < end:
        m = ITEM_RE.search(masked, k, end)
        if not m:
            return
        # make sure we are at depth 0 relative to region: count braces between k and m.start()
        seg = masked[k:m.start()]
        if seg.count("{") != seg.count("}"):
            # inside a block we did not understand (e.g. macro body); skip to its end
            if "{" not in seg:
                return
            ob = k + seg.index("{")
            k = match_brace(masked, ob) + 1
            continue
        kw = m.group(1)
        it = Item()
        it.kw = m.start()
        it.header = None
        pos = m.end()
        if kw == "const" or kw == "static":
            # const fn / const NAME / const unsafe fn
            m2 = re.match(r"\s+(?:unsafe\s+|async\s+|extern\s+\"[^\"]*\"\s+)*fn\b", masked[pos:pos + 40])
            if m2:
                k = m.end()
                continue  # the `fn` keyword will be found next; qualifiers recovered by backtracking
            nm = re.match(r"\s+(?:mut\s+)?([A-Za-z_][A-Za-z0-9_]*)", masked[pos:pos + 200])
            if not nm:
                k = m.end()
                continue
            it.kind, it.name = "const", nm.group(1)
            semi = find_at_depth0(masked, pos, end, ";")
            if semi < 0:
                raise ExtractError("const without ;")
            it.open, it.end = -1, semi
        elif kw == "use" or kw == "extern":
            semi = find_at_depth0(masked, pos, end, ";{")
            if semi < 0:
                return
            if masked[semi] == "{" and kw == "extern":
                semi = match_brace(masked, semi)
            elif masked[semi] == "{":
                # use a::{b, c};
                semi = find_at_depth0(masked, match_brace(masked, semi) + 1, end, ";")
            k = semi + 1
            continue
        elif kw == "type":
            nm = re.match(r"\s+([A-Za-z_][A-Za-z0-9_]*)", masked[pos:pos + 200])
            semi = find_at_depth0(masked, pos, end, ";")
            it.kind, it.name, it.open, it.end = "type", nm.group(1) if nm else "?", -1, semi
        elif kw == "macro_rules":
            ob = find_at_depth0(masked, pos, end, "{(")
            cl = match_brace(masked, ob)
            nm = re.match(r"!\s*([A-Za-z_][A-Za-z0-9_]*)", masked[pos:pos + 200])
            it.kind, it.name, it.open, it.end = "macro", nm.group(1) if nm else "?", ob, cl
        elif kw == "fn":
            nm = re.match(r"\s+([A-Za-z_][A-Za-z0-9_#]*)", masked[pos:pos + 200])
            if not nm:
                k = m.end()
                continue
            ob = find_at_depth0(masked, pos, end, "{;")
            if ob < 0:
                raise ExtractError("fn without body")
            it.kind, it.name = "fn", nm.group(1)
            if masked[ob] == ";":
                it.open, it.end = -1, ob
            else:
                it.open, it.end = ob, match_brace(masked, ob)
        elif kw in ("struct", "enum", "union", "trait", "mod"):
            nm = re.match(r"\s+([A-Za-z_][A-Za-z0-9_]*)", masked[pos:pos + 200])
            if not nm:
                k = m.end()
                continue
            ob = find_at_depth0(masked, pos, end, "{;")
            it.kind, it.name = kw, nm.group(1)
            if ob < 0:
                return
            if masked[ob] == ";":
                it.open, it.end = -1, ob
            else:
                it.open, it.end = ob, match_brace(masked, ob)
        elif kw == "impl":
            ob = find_at_depth0(masked, pos, end, "{")
            if ob < 0:
                return
            it.kind, it.name = "impl", None
            it.header = " ".join(src[m.start():ob].split())
            it.open, it.end = ob, match_brace(masked, ob)
        # backtrack over qualifiers on the same line(s)
        s = it.kw
        while True:
            mq = re.search(r"(pub(\s*\([^)]*\))?|const|unsafe|async|default|extern(\s*\"[^\"]*\")?)\s*$", masked[max(0, s - 40):s])
            if not mq:
                break
            s = max(0, s - 40) + mq.start()
        it.start = s
        # attributes / doc comments above
        a = s
        line_start = src.rfind("\n", 0, a) + 1
        while line_start > 0:
            prev_end = line_start - 1
            prev_start = src.rfind("\n", 0, prev_end) + 1
            t = src[prev_start:prev_end].strip()
            if t.startswith("#[") or t.startswith("///") or t.startswith("//") or t.startswith("#!["):
                line_start = prev_start
            elif t.endswith("]") and not t.startswith("#[") and "(" not in t.split("]")[0][:1]:
                # tail of a multi-line attribute: walk up to its `#[`
                ps = prev_start
                found = False
                for _ in range(12):
                    if src[ps:].lstrip().startswith("#["):
                        found = True
                        break
                    if ps == 0:
                        break
                    ps = src.rfind("\n", 0, ps - 1) + 1
                if found:
                    line_start = ps
                else:
                    break
            else:
                break
        it.attrs_start = line_start
        yield it
        k = it.end + 1


_file_cache = {}


def load(path):
    if path not in _file_cache:
        full = os.path.join(REPO, path)
        if not os.path.exists(full):
            raise ExtractError("source file missing: %s" % path)
        src = open(full, encoding="utf-8").read()
        _file_cache[path] = (src, mask_source(src))
    return _file_cache[path]


def norm_header(h):
    return " ".join(h.replace("<", " < ").replace(">", " > ").replace(",", " , ").split())


def locate(path, spec):
    """spec: list like ['impl IsoDate', 'fn balance'] or ['fn foo'] or ['struct IsoDate'] or ['mod x', 'fn y']"""
    src, masked = load(path)
    regions = [(0, len(src))]
    for depth, part in enumerate(spec):
        part = part.strip()
        last = depth == len(spec) - 1
        found = []
        for (rs, re_) in regions:
            for it in scan_items(src, masked, rs, re_):
                if part.startswith("impl"):
                    if it.kind == "impl" and norm_header(it.header) == norm_header(part):
                        found.append(it)
                else:
                    kind, _, name = part.partition(" ")
                    if not name:
                        kind, name = "fn", kind
                    if it.kind == kind and it.name == name.strip():
                        found.append(it)
        if not found:
            raise ExtractError("anchor lost: %s :: %s" % (path, " :: ".join(spec)))
        if last:
            if len(found) > 1:
                raise ExtractError("ambiguous anchor: %s :: %s (%d matches)" % (path, " :: ".join(spec), len(found)))
            return src, masked, found[0]
        regions = [(it.open + 1, it.end) for it in found]
    raise ExtractError("empty spec")


def lineno(src, idx):
    return src.count("\n", 0, idx) + 1


# ---------------------------------------------------------------------------
# rewriting helpers

DROP_ATTR = re.compile(r"^\s*#\[(inline|must_use|allow|doc|non_exhaustive|cfg\(feature|cfg_attr|repr|deprecated)")


def split_top_commas(s):
    m = mask_source(s)
    parts, depth, cur = [], 0, 0
    for k, ch in enumerate(m):
        if ch in "([{":
            depth += 1
        elif ch in ")]}":
            depth -= 1
        elif ch == "," and depth == 0:
            parts.append(s[cur:k])
            cur = k + 1
    parts.append(s[cur:])
    return [p.strip() for p in parts if p.strip() != ""]


def rewrite_macros(text):
    """E4 / E13 on a body text."""
    applied = set()
    out = text
    # macros with parenthesised args
    for mac in ("temporal_assert", "debug_assert_eq", "debug_assert_ne", "debug_assert", "assert_eq", "assert_ne", "assert"):
        while True:
            masked = mask_source(out)
            m = re.search(r"(?<![A-Za-z0-9_:])%s!\s*\(" % mac, masked)
            if not m:
                break
            ob = m.end() - 1
            cl = match_brace(masked, ob)
            args = split_top_commas(out[ob + 1:cl])
            if mac == "temporal_assert":
                rep = "if !(%s) { return Err(TemporalError::assert()); }" % args[0]
                # swallow a trailing `;`
                tail = cl + 1
                if masked[tail:tail + 1] == ";":
                    tail += 1
                out = out[:m.start()] + rep + out[tail:]
            elif mac in ("debug_assert_eq", "assert_eq"):
                out = out[:m.start()] + "assert((%s) == (%s))" % (args[0], args[1]) + out[cl + 1:]
            elif mac in ("debug_assert_ne", "assert_ne"):
                out = out[:m.start()] + "assert((%s) != (%s))" % (args[0], args[1]) + out[cl + 1:]
            else:
                out = out[:m.start()] + "assert(%s)" % args[0] + out[cl + 1:]
            applied.add("E4")
    # E19: format!(..) only builds error-message text (TemporalError's stand-in drops the message)
    while True:
        masked = mask_source(out)
        m = re.search(r"(?<![A-Za-z0-9_:])format!\s*\(", masked)
        if not m:
            break
        cl = match_brace(masked, m.end() - 1)
        out = out[:m.start()] + '""' + out[cl + 1:]
        applied.add("E19")
    # E16: destructuring assignment `(a, b) = e;` -> `let t = e; a = t.0; b = t.1;`
    cnt = [0]
    def _destr(m):
        cnt[0] += 1
        t = "verif_tmp_%d" % cnt[0]
        return "%slet %s = %s; %s = %s.0; %s = %s.1;" % (m.group(1), t, m.group(4), m.group(2), t, m.group(3), t)
    new = re.sub(r"(?m)^(\s*)\(([a-z_][A-Za-z0-9_]*),\s*([a-z_][A-Za-z0-9_]*)\)\s*=\s*([^=].*?);\s*$", _destr, out)
    if new != out:
        applied.add("E16")
        out = new
    # E13
    new = re.sub(r"(?m)^(\s*)([A-Za-z_][A-Za-z0-9_\.]*)\s*([%/])=\s*(.*?);\s*$", r"\1\2 = \2 \3 (\4);", out)
    if new != out:
        applied.add("E13")
        out = new
    return out, applied


def strip_docs_attrs(lines):
    out = []
    skipping_attr = False
    for ln in lines:
        t = ln.strip()
        if skipping_attr:
            if t.endswith("]"):
                skipping_attr = False
            continue
        if t.startswith("///") or t.startswith("//!"):
            continue
        if DROP_ATTR.match(ln):
            if not t.endswith("]"):
                skipping_attr = True
            continue
        out.append(ln)
    return out


KEEP_DERIVES = ["Clone", "Copy", "PartialEq", "Eq", "Default"]


def rewrite_derive(attr_text):
    m = re.search(r"derive\s*\(([^)]*)\)", attr_text, re.S)
    if not m:
        return None, []
    have = [d.strip() for d in m.group(1).split(",") if d.strip()]
    keep = [d for d in have if d in KEEP_DERIVES]
    if "PartialEq" in have and "Eq" in have:
        keep.append("Structural")
    return keep, have


# ---------------------------------------------------------------------------
# directive parsing

SECTION_KW = ("ret", "requires", "ensures", "decreases", "recommends", "entry", "loop", "before", "after",
              "subst", "sigsubst", "attr", "name", "opens", "noprove", "unwind", "mono", "selftype", "ord", "header", "nostructural", "deadtail",
              "closure", "capture", "cret", "dropclosure", "callargs", "macro", "macroarg", "osubst")


class FnDirective:
    def __init__(self, kind, target, tmpl_line):
        self.kind = kind  # fn | assume
        self.target = target
        self.tmpl_line = tmpl_line
        self.sections = []  # (kw, arg, text)

    def get(self, kw):
        return [(a, t) for (k, a, t) in self.sections if k == kw]


def parse_template(path):
    """Returns list of nodes: ('text', line, str) | ('include', line, path) | ('fn', FnDirective) | ('item', line, target)"""
    nodes = []
    lines = open(path, encoding="utf-8").read().split("\n")
    i = 0
    while i < len(lines):
        ln = lines[i]
        s = ln.strip()
        if s.startswith("//@include_assumed "):
            nodes.append(("include_assumed", i + 1, s[len("//@include_assumed "):].strip()))
        elif s.startswith("//@include "):
            nodes.append(("include", i + 1, s[len("//@include "):].strip()))
        elif s.startswith("//@item "):
            d = FnDirective("item", s[len("//@item "):].strip(), i + 1)
            i += 1
            while i < len(lines) and lines[i].strip().startswith("//@") and not lines[i].strip().startswith("//@end"):
                _sec_line(d, lines[i].strip())
                i += 1
            if i < len(lines) and lines[i].strip().startswith("//@end"):
                pass
            else:
                i -= 1
            nodes.append(("item", d))
        elif s.startswith("//@wrapper_types"):
            nodes.append(("wrapper_types", i + 1, ""))
        elif s.startswith("//@wrappers "):
            nodes.append(("wrappers", i + 1, s[len("//@wrappers "):].strip()))
        elif s.startswith("//@capi_alias "):
            nodes.append(("capi_alias", i + 1, s[len("//@capi_alias "):].strip()))
        elif s.startswith("//@capi "):
            nodes.append(("capi", i + 1, s[len("//@capi "):].strip()))
        elif s.startswith("//@roundtrip "):
            nodes.append(("roundtrip", i + 1, s[len("//@roundtrip "):].strip()))
        elif s.startswith("//@fn ") or s.startswith("//@assume ") or s.startswith("//@trusted "):
            kind = s[3:].split()[0]
            d = FnDirective(kind, s[3 + len(kind):].strip(), i + 1)
            i += 1
            while i < len(lines) and not lines[i].strip().startswith("//@end"):
                t = lines[i].strip()
                if not t.startswith("//@"):
                    raise ExtractError("%s:%d: non-directive line inside //@fn block" % (path, i + 1))
                _sec_line(d, t)
                i += 1
            nodes.append(("fn", d))
        elif s.startswith("//@"):
            raise ExtractError("%s:%d: unknown directive %s" % (path, i + 1, s))
        else:
            nodes.append(("text", i + 1, ln))
        i += 1
    return nodes


def _sec_line(d, t):
    body = t[3:]
    m = re.match(r" ([a-z]+)\b(.*)$", body)
    if m and m.group(1) in SECTION_KW and not body.startswith("  "):
        kw, rest = m.group(1), m.group(2).strip()
        arg, text = None, rest
        if kw in ("loop",):
            mm = re.match(r"(\d+)\s*(.*)$", rest)
            arg, text = int(mm.group(1)), mm.group(2)
        elif kw in ("before", "after"):
            mm = re.match(r'"((?:[^"\\]|\\.)*)"\s*(.*)$', rest)
            arg, text = mm.group(1).replace('\\"', '"'), mm.group(2)
        elif kw in ("subst", "sigsubst", "macroarg", "osubst"):
            mm = re.match(r'"((?:[^"\\]|\\.)*)"\s*=>\s*"((?:[^"\\]|\\.)*)"\s*$', rest)
            if not mm:
                raise ExtractError("bad subst: " + t)
            arg, text = mm.group(1).replace('\\"', '"').replace("\\n", "\n"), mm.group(2).replace('\\"', '"').replace("\\n", "\n")
        d.sections.append([kw, arg, text])
    else:
        if not d.sections:
            raise ExtractError("continuation without section: " + t)
        d.sections[-1][2] += "\n" + body.rstrip()


# ---------------------------------------------------------------------------
# emission


class Emitter:
    def __init__(self, unit):
        self.unit = unit
        self.lines = []  # (text, origin)
        self.fns = []  # dict(name, kind, src, line_from, line_to, gen_from, gen_to, clauses)
        self.rules = set()
        self.substs = []
        self.trusted = []  # external_body / assume_specification found
        self.items = []

    def emit(self, text, origin):
        for ln in text.split("\n"):
            self.lines.append((ln, origin))

    def gen_line(self):
        return len(self.lines) + 1


def clause_count(text):
    return len([c for c in split_top_commas(text) if c])


def build_signature(src, masked, it, d, em):
    sig = src[it.start:it.open].rstrip()
    msig = masked[it.start:it.open].rstrip()
    # E2
    new = re.sub(r"pub\s*\(\s*(crate|super|in [^)]*)\s*\)", "pub", sig)
    if new != sig:
        em.rules.add("E2")
    sig = new
    msig = mask_source(sig)
    for (a, b) in d.get("sigsubst"):
        if a not in sig:
            raise ExtractError("sigsubst anchor lost in %s: %r" % (d.target, a))
        sig = sig.replace(a, b)
        em.substs.append({"fn": d.target, "where": "signature", "from": a, "to": b})
        msig = mask_source(sig)
    sig = apply_mono(sig, d, em, is_sig=True)
    msig = mask_source(sig)
    # return type
    ret = (d.get("ret") or [(None, "r")])[0][1].strip() or "r"
    # find params close
    fn_kw = re.search(r"\bfn\b", msig).start()
    po = msig.index("(", fn_kw)
    # generics may precede params: `fn f<T: X>(..)`; find the first '(' not inside <>
    lt = msig.find("<", fn_kw, po)
    if lt >= 0:
        # skip generics
        depth, k = 0, lt
        while k < len(msig):
            if msig[k] == "<":
                depth += 1
            elif msig[k] == ">" and msig[k - 1] != "-":
                depth -= 1
                if depth == 0:
                    break
            k += 1
        po = msig.index("(", k)
    pc = match_brace(msig, po)
    tail = sig[pc + 1:]
    mtail = msig[pc + 1:]
    where_m = re.search(r"\bwhere\b", mtail)
    where_txt = ""
    if where_m:
        where_txt = tail[where_m.start():].strip()
        tail = tail[:where_m.start()]
    arrow = tail.find("->")
    head = sig[:pc + 1]
    if arrow >= 0:
        rtype = tail[arrow + 2:].strip()
        head += " -> (%s: %s)" % (ret, rtype)
        em.rules.add("E3")
    nm = d.get("name")
    if nm:
        head = re.sub(r"\bfn\s+[A-Za-z_][A-Za-z0-9_]*", "fn " + nm[0][1].strip(), head, count=1)
    if where_txt:
        head += "\n    " + where_txt.rstrip(",") + ","
    return head


def contract_text(d):
    parts = []
    n = 0
    for kw in ("requires", "recommends", "ensures", "decreases", "opens"):
        for (_, t) in d.get(kw):
            t = t.strip()
            if not t:
                continue
            kwout = "opens_invariants" if kw == "opens" else kw
            parts.append("    %s\n        %s" % (kwout, t.rstrip().rstrip(",") + ","))
            if kw in ("requires", "ensures"):
                n += clause_count(t)
    return "\n".join(parts), n


LOOP_RE = re.compile(r"\b(while|for|loop)\b")


def apply_mono(text, d, em, is_sig=False):
    """E8: monomorphise a generic parameter / Self to a concrete type (textual, word-boundary)."""
    for (_, spec) in d.get("mono"):
        var, _, ty = spec.partition("=")
        var, ty = var.strip(), ty.strip()
        if is_sig:
            # drop the generic parameter declaration `<T: Bound>` / `<T>`
            text = re.sub(r"<\s*%s\s*(:[^<>]*(<[^<>]*>[^<>]*)*)?>" % re.escape(var), "", text, count=1)
        # replace identifiers only: matches are located on the masked text (comments, string and char literals blanked)
        masked = mask_source(text)
        pieces, cur = [], 0
        for m in re.finditer(r"(?<![A-Za-z0-9_])%s(?![A-Za-z0-9_])" % re.escape(var), masked):
            pieces.append(text[cur:m.start()]); pieces.append(ty); cur = m.end()
        pieces.append(text[cur:])
        text = "".join(pieces)
        em.rules.add("E8")
    for (_, ty) in d.get("selftype"):
        text = re.sub(r"(?<![A-Za-z0-9_])Self(?![A-Za-z0-9_])", ty.strip(), text)
        em.rules.add("E8")
    return text


def splice_body(body, d, em, target):
    """body: text from `{` to matching `}` inclusive."""
    body = apply_mono(body, d, em)
    for (_, chead) in d.get("dropclosure"):
        # E21 (second half): in the enclosing function the closure expression (lifted to its own function by
        # `closure`) is replaced by `()`; the statements that only build or pass it are then removed by `subst`
        chead = chead.strip().strip('"')
        if body.count(chead) != 1:
            raise ExtractError("dropclosure head %r matches %d times in %s" % (chead, body.count(chead), target))
        mb = mask_source(body)
        cpos = body.index(chead)
        cob = find_at_depth0(mb, cpos + len(chead), len(mb), "{")
        if cob < 0 or mb[cpos + len(chead):cob].strip():
            raise ExtractError("dropclosure body not found after %r in %s" % (chead, target))
        cend = match_brace(mb, cob)
        body = body[:cpos] + "()" + body[cend + 1:]
        em.rules.add("E21")
    for (_, spec_) in d.get("callargs"):
        # E5 (ghost arguments): `callargs "callee" "extra"` appends the extra (ghost) arguments to every call of `callee`
        # in the body, whatever its formatting
        mm = re.match(r'\s*"([^"]+)"\s+"([^"]+)"\s*$', spec_)
        if not mm:
            raise ExtractError("bad callargs: " + spec_)
        callee, extra = mm.group(1), mm.group(2)
        mb = mask_source(body)
        hits = [m for m in re.finditer(r"(?<![A-Za-z0-9_])%s\s*\(" % re.escape(callee), mb)]
        if not hits:
            raise ExtractError("callargs: no call of %s in %s" % (callee, target))
        for m in reversed(hits):
            po = m.end() - 1
            pc = match_brace(mb, po)
            inner = body[po + 1:pc].rstrip()
            sep = "" if (inner.endswith(",") or not inner.strip()) else ","
            body = body[:po + 1] + inner + sep + " " + extra + body[pc:]
            mb = mask_source(body)
        em.rules.add("E5")
    for (_, anchor) in d.get("deadtail"):
        # E17: drop the tail of the body starting at the anchored line; it is replaced by `unreached()`, which Verus
        # must prove unreachable under the function's requires (used for the non-ISO branches that call icu_calendar)
        anchor = anchor.strip().strip('"')
        ls = body.split("\n")
        hits = [k for k, ln in enumerate(ls) if anchor in ln]
        if len(hits) != 1:
            raise ExtractError("deadtail anchor %r matches %d lines in %s" % (anchor, len(hits), target))
        body = "\n".join(ls[:hits[0]]) + "\n        vstd::pervasive::unreached()\n}"
        em.rules.add("E17")
    for (a, b) in d.get("subst"):
        if a not in body:
            raise ExtractError("subst anchor lost in %s: %r" % (target, a))
        body = body.replace(a, b)
        em.substs.append({"fn": target, "where": "body", "from": a, "to": b})
    for (a, b) in d.get("osubst"):
        # optional substitution: applied when the text occurs (annotations for forms the code may also take)
        if a in body:
            body = body.replace(a, b)
            em.substs.append({"fn": target, "where": "body", "from": a, "to": b})
    body, applied = rewrite_macros(body)
    em.rules |= applied
    lines = body.split("\n")
    # before / after anchors (line based)
    for kw in ("before", "after"):
        for (pat, text) in d.get(kw):
            hits = [k for k, ln in enumerate(lines) if pat in ln and not ln.strip().startswith("//")]
            if len(hits) != 1:
                raise ExtractError("anchor %r matches %d lines in %s" % (pat, len(hits), target))
            k = hits[0]
            if kw == "after":
                # advance to the end of the statement (line ending with ; or { or })
                masked_lines = mask_source("\n".join(lines)).split("\n")
                depth = 0
                j = k
                while True:
                    ml = masked_lines[j]
                    depth += ml.count("(") + ml.count("[") + ml.count("{") - ml.count(")") - ml.count("]") - ml.count("}")
                    if depth <= 0 and ml.rstrip().endswith((";", "{", "}")):
                        break
                    j += 1
                    if j >= len(lines):
                        raise ExtractError("statement end not found after %r in %s" % (pat, target))
                k = j + 1
            lines[k:k] = ("proof { " + text.strip() + " }").split("\n")
            em.rules.add("E5")
    body = "\n".join(lines)
    # loops
    loops = d.get("loop")
    if loops:
        masked = mask_source(body)
        heads = [m for m in LOOP_RE.finditer(masked)]
        # positions of the `{` that opens each loop body
        opens = []
        for m in heads:
            ob = find_at_depth0(masked, m.end(), len(masked), "{")
            opens.append(ob)
        inserts = []
        for (n, text) in loops:
            if n < 1 or n > len(opens):
                raise ExtractError("loop %d not found in %s (has %d)" % (n, target, len(opens)))
            inserts.append((opens[n - 1], "\n" + text.strip() + "\n"))
        for pos, text in sorted(inserts, reverse=True):
            body = body[:pos] + text + body[pos:]
        em.rules.add("E5")
    # entry
    entries = d.get("entry")
    if entries:
        text = "\n".join(t for (_, t) in entries)
        body = "{\n    proof { " + text.strip() + " }" + body[1:]
        em.rules.add("E5")
    headers = d.get("header")
    if headers:
        body = "{\n    " + " ".join(t.strip() for (_, t) in headers) + body[1:]
        em.rules.add("E5")
    return body


def find_fn_directive(unit, name):
    path = os.path.join(VERIF, "units", unit + ".vrs")
    if not os.path.exists(path):
        raise ExtractError("unit not found for assume: " + unit)
    for node in parse_template(path):
        if node[0] == "fn" and node[1].kind in ("fn", "trusted"):
            d = node[1]
            tgt_name = d.target.split("::")[-1].strip()
            nm = d.get("name")
            if nm:
                tgt_name = nm[0][1].strip()
            full = d.target
            norm = lambda t: "::".join(x.strip() for x in t.split("::"))
            if "::" in name:
                if norm(d.target).endswith("::" + norm(name)):
                    return d
            elif tgt_name == name or d.target.split('::')[-1].strip() == name:
                return d
    raise ExtractError("assumed contract %s::%s not found" % (unit, name))


def parse_target(target):
    # separators are ` :: ` (spaces on both sides); a `::` without spaces belongs to a path inside an impl header
    # (`impl core::fmt::Display for X`)
    parts = [p.strip() for p in re.split(r"\s::\s", target)] if re.search(r"\s::\s", target) else [p.strip() for p in target.split("::")]
    # first part is the file; re-join things like `impl From<A> for B` that contain no '::'
    path = parts[0]
    spec = parts[1:]
    # `impl X<A::B>` would be split wrongly; not used in this repo's headers we anchor on
    return path, spec


def emit_fn(em, d, tmpl_path):
    kind = d.kind
    src_unit = None
    if kind == "assume":
        unit, _, name = d.target.partition("::")
        src_unit = unit.strip()
        d0 = find_fn_directive(src_unit, name.strip())
        # the assuming unit may add nothing; contract comes from the proving unit
        dd = FnDirective("assume", d0.target, d.tmpl_line)
        dd.sections = [s for s in d0.sections if s[0] in ("ret", "requires", "ensures", "recommends", "name", "sigsubst", "attr", "mono", "selftype", "macro", "macroarg")]
        d = dd
    path, spec = parse_target(d.target)
    if not spec[-1].startswith(("fn ", "impl")) and " " not in spec[-1]:
        spec[-1] = "fn " + spec[-1]
    mac = d.get("macro")
    if mac:
        # E22 (macro instantiation): the single-arm macro_rules! named in `macro "<name>"` is expanded textually with
        # the bindings `macroarg "$x" => "text"`; an optional group `$( .. )?` is kept (with its variables bound) when
        # every variable in it is bound, dropped otherwise.  The function inside the expansion is then treated like
        # any other function of the file.
        mname = mac[0][1].strip().strip('"')
        fsrc, fmasked = load(path)
        mm = re.search(r"macro_rules!\s+%s\s*\{" % re.escape(mname), fmasked)
        if not mm:
            raise ExtractError("macro %s not found in %s" % (mname, path))
        mo = mm.end() - 1
        me = match_brace(fmasked, mo)
        arm = re.search(r"=>\s*\{", fmasked[mo:me])
        if not arm:
            raise ExtractError("macro %s: no arm body" % mname)
        ao = mo + arm.end() - 1
        ae = match_brace(fmasked, ao)
        if re.search(r"=>\s*\{", fmasked[ae:me]):
            raise ExtractError("macro %s has more than one arm" % mname)
        text = fsrc[ao + 1:ae]
        binds = {}
        for (a, b) in [(x[1], x[2]) for x in d.sections if x[0] == "macroarg"]:
            binds[a] = b
        while True:
            k = text.find("$(")
            if k < 0:
                break
            pc = match_brace(mask_source(text), k + 1)
            if not text[pc + 1:pc + 2] == "?":
                raise ExtractError("macro %s: only optional groups `$( .. )?` are supported" % mname)
            inner = text[k + 2:pc]
            vars_ = set(re.findall(r"\$[a-z_][a-z0-9_]*", inner))
            text = text[:k] + (inner if vars_ and all(v in binds for v in vars_) else "") + text[pc + 2:]
        for a in sorted(binds, key=len, reverse=True):
            text = text.replace(a, binds[a])
        if re.search(r"\$[a-z_(]", mask_source(text)):
            raise ExtractError("macro %s: unbound metavariable after expansion" % mname)
        base_line = lineno(fsrc, ao)
        src, masked = text, mask_source(text)
        items = [x for x in scan_items(src, masked, 0, len(src)) if x.kind == "fn"]
        if len(items) != 1:
            raise ExtractError("macro %s: expansion does not contain exactly one fn" % mname)
        it = items[0]
        em.rules.add("E22")
        path = "%s (macro %s, line %d+)" % (path, mname, base_line)
    else:
        src, masked, it = locate(path, spec)
    if it.open < 0:
        raise ExtractError("function has no body: " + d.target)
    clos = d.get("closure")
    if clos:
        # E21 (closure lifting): the closure whose parameter list is the quoted text, inside the located function, becomes
        # a named function: its parameters first, then every captured variable it mutates as `&mut` parameter (listed
        # by `capture name: Type`), its body verbatim with each captured name `x` rewritten to `(*x)`.
        chead = clos[0][1].strip().strip('"')
        fbody = src[it.open:it.end + 1]
        if fbody.count(chead) != 1:
            raise ExtractError("closure head %r matches %d times in %s" % (chead, fbody.count(chead), d.target))
        cpos = it.open + fbody.index(chead)
        cob = find_at_depth0(masked, cpos + len(chead), it.end, "{")
        if cob < 0 or masked[cpos + len(chead):cob].strip():
            raise ExtractError("closure body not found after %r in %s" % (chead, d.target))
        cend = match_brace(masked, cob)
        params = chead.strip("|").strip()
        for (a, b) in d.get("sigsubst"):
            if a not in params:
                raise ExtractError("sigsubst anchor lost in %s: %r" % (d.target, a))
            params = params.replace(a, b)
        caps = [t.strip().strip('"') for (_, t) in d.get("capture")]
        cret = (d.get("cret") or [(None, "()")])[0][1].strip().strip('"')
        ret = (d.get("ret") or [(None, "r")])[0][1].strip() or "r"
        cname = (d.get("name") or [(None, it.name + "_closure")])[0][1].strip()
        plist = ", ".join([params] + ["%s: &mut %s" % tuple(x.strip() for x in c.split(":", 1)) for c in caps])
        lts = sorted(set(x for x in re.findall(r"'([a-z][a-z0-9_]*)\b(?!')", plist + " " + cret) if x not in ("static",)))
        head = "pub fn %s%s(%s) -> (%s: %s)" % (cname, ("<" + ", ".join("'" + x for x in lts) + ">") if lts else "", plist, ret, cret)
        cbody = src[cob:cend + 1]
        mcb = mask_source(cbody)
        for c in caps:
            cn = c.split(":", 1)[0].strip()
            out, last = [], 0
            for m in re.finditer(r"(?<![A-Za-z0-9_.])%s(?![A-Za-z0-9_])" % re.escape(cn), mcb):
                out.append(cbody[last:m.start()])
                out.append("(*%s)" % cn)
                last = m.end()
            out.append(cbody[last:])
            cbody = "".join(out)
            mcb = mask_source(cbody)
        ctext, nclauses = contract_text(d)
        origin = "%s:%d" % (path, lineno(src, cpos))
        gen_from = em.gen_line()
        for (_, a) in d.get("attr"):
            em.emit(a, origin)
        d2 = FnDirective("fn", d.target, d.tmpl_line)
        d2.sections = [x for x in d.sections if x[0] not in ("sigsubst",)]
        body = splice_body(cbody, d2, em, d.target)
        em.emit(head, origin)
        if ctext:
            em.emit(ctext, origin)
        body_line0 = lineno(src, cob)
        for k, ln in enumerate(body.split("\n")):
            em.lines.append((ln, "%s:~%d" % (path, body_line0 + k)))
        em.rules.add("E21")
        em.fns.append({"name": cname, "target": d.target + " :: closure " + chead, "kind": kind, "src": origin, "gen_from": gen_from, "gen_to": em.gen_line() - 1,
                       "clauses": nclauses, "src_lines": [lineno(src, cpos), lineno(src, cend)]})
        return
    head = build_signature(src, masked, it, d, em)
    ctext, nclauses = contract_text(d)
    name = (d.get("name") or [(None, it.name)])[0][1].strip()
    origin = "%s:%d" % (path, lineno(src, it.start))
    gen_from = em.gen_line()
    attrs = [t for (_, t) in d.get("attr")]
    for a in attrs:
        em.emit(a, origin)
    if kind in ("assume", "trusted"):
        em.emit("#[verifier::external_body]", origin)
        em.emit(head, origin)
        if ctext:
            em.emit(ctext, origin)
        em.emit("{ unimplemented!() }", origin)
        em.trusted.append({"fn": d.target, "how": "assumed here, proved in unit " + src_unit if kind == "assume" else "trusted (no proof anywhere)"})
    else:
        body = splice_body(src[it.open:it.end + 1], d, em, d.target)
        em.emit(head, origin)
        if ctext:
            em.emit(ctext, origin)
        body_line0 = lineno(src, it.open)
        for k, ln in enumerate(body.split("\n")):
            em.lines.append((ln, "%s:~%d" % (path, body_line0 + k)))
    em.fns.append({
        "name": name, "target": d.target, "kind": kind, "src": origin,
        "gen_from": gen_from, "gen_to": em.gen_line() - 1, "clauses": nclauses,
        "src_lines": [lineno(src, it.start), lineno(src, it.end)],
    })


def emit_item(em, d):
    path, spec = parse_target(d.target)
    src, masked, it = locate(path, spec)
    origin = "%s:%d" % (path, lineno(src, it.start))
    attr_text = src[it.attrs_start:it.start]
    text = src[it.start:it.end + 1]
    new = re.sub(r"pub\s*\(\s*(crate|super|in [^)]*)\s*\)", "pub", text)
    if new != text:
        em.rules.add("E2")
    text = new
    for (a, b) in d.get("subst"):
        if a not in text:
            raise ExtractError("subst anchor lost in %s: %r" % (d.target, a))
        text = text.replace(a, b)
        em.substs.append({"fn": d.target, "where": "item", "from": a, "to": b})
    lines = strip_docs_attrs(text.split("\n"))
    em.rules.add("E1")
    if it.kind == "const" and d.get("ensures"):
        # E15: `const N: T = e;` -> `exec const N: T ensures <clauses> { e }` (Verus proves the clause about e)
        joined = "\n".join(lines)
        m = re.match(r"\s*((?:pub\s+)?)const\s+([A-Za-z_][A-Za-z0-9_]*)\s*:\s*([^=]+?)\s*=\s*(.*);\s*$", joined, re.S)
        if not m:
            raise ExtractError("cannot parse const " + d.target)
        ens = ", ".join(t.strip().rstrip(",") for (_, t) in d.get("ensures"))
        entry = " ".join(t.strip() for (_, t) in d.get("entry"))
        em.emit("%sexec const %s: %s\n    ensures %s,\n{\n    %s\n    %s\n}" % (
            m.group(1), m.group(2), m.group(3), ens, ("proof { " + entry + " }") if entry else "", m.group(4)), origin)
        em.rules.add("E15")
        em.items.append({"item": d.target, "as": "exec const with ensures"})
        return
    if it.kind == "struct":
        # E2: private named fields -> pub (visibility only)
        lines = [re.sub(r"^(\s+)([a-z_][A-Za-z0-9_]*\s*:)", r"\1pub \2", ln) if not ln.lstrip().startswith(("pub", "//", "#")) else ln for ln in lines]
    ord_text = None
    have = None
    if it.kind in ("struct", "enum"):
        keep, have = rewrite_derive(attr_text)
        if d.get("nostructural") and keep:
            keep = [k for k in keep if k != "Structural"]
        if d.get("ord"):
            if not ("PartialOrd" in have and "Ord" in have):
                raise ExtractError("E6: %s does not derive PartialOrd, Ord any more" % d.target)
            keep = [k for k in keep if k != "Structural"] + ["PartialOrd", "Ord"] + (["Structural"] if "Structural" in keep else [])
            ord_text = gen_ord_spec(it, "\n".join(lines))
            em.rules.add("E6")
        extra = [t for (_, t) in d.get("attr")]
        for a in extra:
            em.emit(a, origin)
        if keep:
            em.emit("#[derive(%s)]" % ", ".join(keep), origin)
        em.items.append({"item": d.target, "derives_in_repo": have, "derives_kept": keep})
    else:
        em.items.append({"item": d.target})
    for ln in lines:
        em.emit(ln, origin)
    if it.kind == "enum" and "PartialEq" in (have or []) and "Eq" not in (have or []):
        body_m = mask_keep_code("\n".join(lines))
        inner = body_m[body_m.index("{") + 1:body_m.rindex("}")]
        if all(re.match(r"^[A-Za-z_][A-Za-z0-9_]*(\s*=\s*-?\d+)?$", p_.strip()) for p_ in split_top_commas(inner) if p_.strip()):
            # E1: derive(PartialEq) on a fieldless enum is variant equality
            em.emit("impl vstd::std_specs::cmp::PartialEqSpecImpl for %s {\n    open spec fn obeys_eq_spec() -> bool { true }\n"
                    "    open spec fn eq_spec(&self, other: &Self) -> bool { *self == *other }\n}" % it.name, origin + " (E1: derived PartialEq of a fieldless enum)")
    if ord_text:
        em.emit(ord_text, origin + " (E6 generated from the declaration order)")


LOCK_RE = re.compile(r"^\s*let provider = TZ_PROVIDER\s*\.lock\(\)\s*\.map_err\(\|_\| TemporalError::general\(\"Unable to acquire lock\"\)\)\?;", re.S)
PRIM = {"i8", "i16", "i32", "i64", "i128", "u8", "u16", "u32", "u64", "u128", "usize", "isize", "bool", "str", "String", "Option", "Result", "Self",
        "TemporalResult", "Ordering", "Vec", "f64", "char", "TemporalError", "Provider", "Guard"}
_wr_types = set()
_wr_callees = set()


def _sig_parts(src, masked, it):
    """(params text inside the parens, return type text or None)"""
    sig = src[it.start:it.open]
    msig = masked[it.start:it.open]
    fn_kw = re.search(r"\bfn\b", msig).start()
    po = msig.index("(", fn_kw)
    pc = match_brace(msig, po)
    params = msig[po + 1:pc]   # masked: comments inside the parameter list are dropped
    tail = msig[pc + 1:]
    ret = tail.split("->", 1)[1].strip() if "->" in tail else None
    if ret and " where" in ret:
        ret = ret.split(" where")[0].strip()
    return params, ret


def emit_wrappers(em, target):
    """C19 / E18: `//@wrappers <compiled file> :: <core file>[, <core file>...]`.
    Every `pub fn` of every inherent impl block of the compiled-data file must have the shape
        let provider = TZ_PROVIDER.lock().map_err(..)?;  <one call expression ending in `&*provider)`>
    It is emitted verbatim except that the lock line becomes `let provider = acquire()?;` and `&*provider` becomes
    `provider.get()`.  The callee is declared external_body with `ensures r == spec_<Type>_<callee>(args.., provider)`
    (one DISTINCT uninterpreted spec function per core method), and the wrapper must prove
        lock acquired ==> r == spec_<Type>_<wrapper name>_with_provider(self, same args in the same order, provider)."""
    comp, cores = [x.strip() for x in target.split("::", 1)]
    cores = [c.strip() for c in cores.split(",")]
    src, masked = load(comp)
    for imp in scan_items(src, masked, 0, len(src)):
        if imp.kind == "mod":
            inner = list(scan_items(src, masked, imp.open + 1, imp.end))
        else:
            inner = [imp]
        for im in inner:
            if im.kind != "impl" or " for " in im.header:
                continue
            ty = im.header.split()[-1]
            _wr_types.add(ty)
            for f in scan_items(src, masked, im.open + 1, im.end):
                if f.kind != "fn" or not src[f.start:f.kw].strip().startswith("pub"):
                    continue
                body = src[f.open + 1:f.end]
                m = LOCK_RE.match(body)
                if not m:
                    raise ExtractError("E18: %s::%s in %s is not a lock-and-forward wrapper" % (ty, f.name, comp))
                rest = body[m.end():].strip()
                # receiver: self / Self / a type / a parameter (a wrapper that forwards through another value is emitted as
                # written and then fails its obligation instead of being unextractable)
                cm = re.match(r"^([A-Za-z_][A-Za-z0-9_]*)(\.|::)([a-z_][a-z0-9_]*)\((.*)\)$", rest, re.S)
                if not cm or "&*provider" not in cm.group(4):
                    raise ExtractError("E18: %s::%s forwards with an unsupported expression: %r" % (ty, f.name, rest[:80]))
                callee = cm.group(3)
                def declare(method):
                    cit = None
                    for core in cores:
                        try:
                            csrc, cmask, cit = locate(core, ["impl " + ty, "fn " + method])
                            break
                        except ExtractError:
                            continue
                    if cit is None:
                        return None
                    cparams, cret = _sig_parts(csrc, cmask, cit)
                    cparams = re.sub(r"&\s*impl\s+TimeZoneProvider", "&Provider", " ".join(cparams.split()))
                    for t in re.findall(r"[A-Z][A-Za-z0-9_]*", cparams + " " + (cret or "")):
                        if t not in PRIM:
                            _wr_types.add(t)
                    names = []
                    for part in split_top_commas(cparams):
                        part = part.strip()
                        if part in ("&self", "self", "&mut self"):
                            names.append(("self", ty))
                        else:
                            nm, _, pt = part.partition(":")
                            names.append((nm.strip(), pt.strip()))
                    def spec_ty(t):
                        t = t.strip()
                        if t.startswith("&") and t.lstrip("& ").strip() != "str":
                            t = re.sub(r"^'[a-z_]+\s+", "", t[1:].strip())
                        return t.replace("Self", ty)
                    sname = "spec_%s_%s" % (ty, method)
                    origin_c = "%s:%d" % (core, lineno(csrc, cit.start))
                    if (ty, method) not in _wr_callees:
                        _wr_callees.add((ty, method))
                        sp_params = ", ".join("%s: %s" % (("this" if n == "self" else n), spec_ty(t)) for (n, t) in names)
                        em.emit("pub uninterp spec fn %s(%s) -> %s;" % (sname, sp_params, (cret or "()").replace("Self", ty)), origin_c)
                        call_args = ", ".join(("*self" if (n == "self") else (("*" if (t.strip().startswith("&") and t.strip().lstrip("& ").strip() != "str") else "") + n)) for (n, t) in names)
                        em.emit("impl %s {\n#[verifier::external_body]\npub fn %s(%s) -> (r: %s)\n    ensures r == %s(%s),\n{ unimplemented!() }\n}" % (
                            ty, method, cparams, cret or "()", sname, call_args), origin_c)
                    return sname
                if declare(callee) is None:
                    raise ExtractError("E18: core method %s::%s not found" % (ty, callee))
                # the twin this wrapper must equal: the core method named after the wrapper
                expect = None
                for cand in (f.name + "_with_provider", f.name + "_and_provider", f.name + "_with_provider_and_system_info"):
                    if declare(cand) is not None:
                        expect = cand
                        break
                if expect is None:
                    raise ExtractError("E18: no provider-taking twin of %s::%s in %s" % (ty, f.name, cores))
                wparams, wret = _sig_parts(src, masked, f)
                wparams = " ".join(wparams.split())
                for t in re.findall(r"[A-Z][A-Za-z0-9_]*", wparams + " " + (wret or "")):
                    if t not in PRIM:
                        _wr_types.add(t)
                # the wrapper, verbatim modulo E18
                wnames = [p_.split(":")[0].strip() for p_ in split_top_commas(wparams) if p_.strip() not in ("&self", "self")]
                wtypes = [p_.split(":", 1)[1].strip() for p_ in split_top_commas(wparams) if p_.strip() not in ("&self", "self")]
                has_self = any(p_.strip() in ("&self", "self") for p_ in split_top_commas(wparams))
                want_args = (["*self"] if has_self else []) + [(("*" if (t.strip().startswith("&") and t.strip().lstrip("& ").strip() != "str") else "") + n) for n, t in zip(wnames, wtypes)] + ["the_provider()"]
                origin_w = "%s:%d" % (comp, lineno(src, f.start))
                new_body = "{\n        let provider = acquire()?;\n        " + rest.replace("&*provider", "provider.get()") + "\n    }"
                em.emit("impl %s {\npub fn %s(%s) -> (r: %s)\n    ensures lock_ok() ==> r == spec_%s_%s(%s),\n%s\n}" % (
                    ty, f.name, wparams, wret, ty, expect, ", ".join(want_args), new_body), origin_w)
                em.fns.append({"name": f.name, "target": "%s :: impl %s :: %s" % (comp, ty, f.name), "kind": "fn", "src": origin_w,
                               "gen_from": 0, "gen_to": 0, "clauses": 1, "src_lines": [lineno(src, f.start), lineno(src, f.end)]})
                em.rules.add("E18")


_capi_alias = {}
_capi_ids = {}


def _capi_id(key):
    if key not in _capi_ids:
        _capi_ids[key] = len(_capi_ids) + 1
    return _capi_ids[key]


def emit_capi(em, target):
    """C19 / E20: `//@capi <temporal_capi file>`: call-skeleton obligations for the forwarding functions of the ffi module.
    For `pub fn name(&self, p1, p2) { self.0.callee(e1, e2)<suffix> }` the generated obligation is
        call(id(Type, callee), [self, origin(e1), origin(e2)]) == spec_call(id(Type, expected(name)), [self, p1, p2])
    where origin(e) is the parameter the argument expression is built from and expected(name) is the wrapper's own name
    unless a `//@capi_alias Type::name => core_name` line of the unit says otherwise.  Functions whose body is not a single
    call chain on `self.0` / `temporal_rs::Type::` are listed as skipped."""
    src, masked = load(target)
    mm = re.search(r"pub mod ffi\s*\{", masked)
    if not mm:
        raise ExtractError("E20: no ffi module in %s" % target)
    mod_open = mm.end() - 1
    mod_end = match_brace(masked, mod_open)
    skipped = []
    for im in scan_items(src, masked, mod_open + 1, mod_end):
        if im.kind != "impl" or " for " in im.header:
            continue
        ty = im.header.split()[-1]
        for f in scan_items(src, masked, im.open + 1, im.end):
            if f.kind != "fn" or not src[f.start:f.kw].strip().startswith("pub"):
                continue
            body = src[f.open + 1:f.end].strip()
            mbody = mask_source(body)
            params, _ret = _sig_parts(src, masked, f)
            pnames = []
            has_self = False
            for part in split_top_commas(" ".join(params.split())):
                part = part.strip()
                if part in ("&self", "self", "&mut self"):
                    has_self = True
                elif part:
                    pnames.append(part.partition(":")[0].strip().lstrip("_"))
            m = re.match(r"^((?:self|[a-z_][a-z0-9_]*)\s*\.\s*0|temporal_rs::([A-Za-z_][A-Za-z0-9_]*))\s*(\.|::)\s*([a-z_][a-z0-9_]*)\s*\(", mbody)
            if m and not m.group(2) and re.sub(r"\s", "", m.group(1))[:-2] not in ["self"] + pnames:
                m = None
            wrapped = re.match(r"^(?:Ok\()?Box::new\((?:Self|[A-Z][A-Za-z0-9_]*)\((self\.0)\s*\.\s*([a-z_][a-z0-9_]*)\s*\(", mbody)
            if ";" in mbody or (not m and not wrapped):
                skipped.append("%s::%s" % (ty, f.name))
                continue
            if m:
                recv_self = not m.group(2)
                recv_name = re.sub(r"\s", "", m.group(1))[:-2] if recv_self else None
                core_ty = ty if recv_self else m.group(2)
                callee = m.group(4)
                ob = m.end() - 1
            else:
                recv_self, recv_name, core_ty, callee = True, "self", ty, wrapped.group(2)
                ob = wrapped.end() - 1
            cb = match_brace(mbody, ob)
            # what follows the call may only re-wrap the core result (Box / newtype / error conversion / .into() / .as_inner())
            suffix = re.sub(r"\s+", "", body[cb + 1:])
            if wrapped:
                suffix_ok = re.match(r"^\)\)\)?$", suffix) is not None
            else:
                suffix_ok = re.match(r"^(\.map\(\|([a-z])\|Box::new\([A-Z][A-Za-z0-9]*\(\2\)\)\))?(\.map_err\(Into::into\))?(\.into\(\)|\.as_inner\(\))?$", suffix) is not None
            if not suffix_ok:
                skipped.append("%s::%s" % (ty, f.name))
                continue
            args = split_top_commas(body[ob + 1:cb])
            origins = []
            okay = True
            for a in args:
                names = [n for n in re.findall(r"[a-z_][a-z0-9_]*", mask_source(a)) if n in pnames or n == "self"]
                names = [n for n in names if n != "self"] + (["self"] if "self" in names and not [n for n in names if n != "self"] else [])
                # the argument may only convert the parameter (newtype field, Into / TryInto, Option::map of those)
                shape = re.sub(r"\s+", "", a)
                if len(names) != 1 or not re.match(r"^&?[a-z_][a-z0-9_]*(\.0)?(\.clone\(\)|\.into\(\)|\.try_into\(\)\?|\.map\(Into::into\)|\.map\(\|([a-z_]+)\|\3\.0\))?$", shape):
                    okay = False
                    break
                origins.append(names[0])
            if not okay:
                skipped.append("%s::%s" % (ty, f.name))
                continue
            expected = _capi_alias.get("%s::%s" % (ty, f.name), f.name)
            origin = "%s:%d" % (target, lineno(src, f.start))
            recv = [("this" if recv_name == "self" else "p_" + recv_name)] if recv_self else []
            got_args = recv + [("this" if o == "self" else "p_" + o) for o in origins]
            want_args = (["this"] if has_self else []) + ["p_" + n for n in pnames]
            sig = ", ".join((["this: V"] if has_self else []) + ["p_%s: V" % n for n in pnames])
            fname = "ffi_%s_%s" % (ty, f.name)
            if len(want_args) > 10 or len(got_args) > 10:
                skipped.append("%s::%s" % (ty, f.name))
                continue
            pad = lambda xs, nil: ", ".join(xs + [nil] * (10 - len(xs)))
            em.emit("/// %s::%s forwards to %s::%s\npub fn %s(%s) -> (r: V)\n    ensures r == spec_call(%d, %s),\n{\n    call(%du32, %s)\n}" % (
                ty, f.name, core_ty, callee, fname, sig, _capi_id((core_ty, expected)), pad(want_args, "nil()"), _capi_id((core_ty, callee)), pad(got_args, "NIL")), origin + " (E20)")
            em.fns.append({"name": fname, "target": "%s :: ffi %s::%s" % (target, ty, f.name), "kind": "fn", "src": origin, "gen_from": 0, "gen_to": 0, "clauses": 1,
                           "src_lines": [lineno(src, f.start), lineno(src, f.end)]})
            em.rules.add("E20")
    if skipped:
        em.emit("// E20 skipped in %s (body is not a single forwarding call chain): %s" % (target, ", ".join(skipped)), target)
        em.trusted.append({"fn": "E20 skipped in %s: %s" % (target, ", ".join(skipped)), "how": "not a single forwarding call chain; not under contract"})


def emit_wrapper_types(em):
    for t in sorted(_wr_types):
        if t == "TinyAsciiStr":
            em.emit("pub struct TinyAsciiStr<const N: usize> { pub b: [u8; N] }", "generated (opaque stand-in)")
        else:
            em.emit("pub struct %s { pub opaque: u8 }" % t, "generated (opaque stand-in)")


def emit_roundtrip(em, target):
    """E9: `//@roundtrip <file> :: <Enum>` - enum text round trip, generated mechanically from the repository:
    the FromStr::from_str body is emitted verbatim as an inherent fn; for every arm `Variant => "lit"` of the Display impl
    (of the shape `match self { .. }.fmt(f)`) one obligation `from_str("lit") == Ok(Variant)` is generated."""
    path, spec = parse_target(target)
    enum = spec[-1].strip()
    src, masked = load(path)
    disp = None
    for hdr in ("impl fmt::Display for " + enum, "impl core::fmt::Display for " + enum, "impl Display for " + enum):
        try:
            _, _, disp = locate(path, [hdr, "fn fmt"])
            break
        except ExtractError:
            continue
    if disp is None:
        raise ExtractError("E9: Display impl of %s not found" % enum)
    body = src[disp.open + 1:disp.end]
    mbody = mask_source(body)
    mm = re.match(r"\s*match\s+self\s*\{(.*)\}\s*\.fmt\(f\)\s*$", mbody, re.S)
    if not mm:
        raise ExtractError("E9: Display::fmt of %s is not `match self { .. }.fmt(f)`" % enum)
    inner = body[mm.start(1):mm.end(1)]
    arms = []
    for part in split_top_commas(inner):
        am = re.match(r"(?:Self|%s)::([A-Za-z_][A-Za-z0-9_]*)\s*=>\s*\"((?:[^\"\\]|\\.)*)\"$" % re.escape(enum), part.strip())
        if not am:
            raise ExtractError("E9: unsupported Display arm %r of %s" % (part, enum))
        arms.append((am.group(1), am.group(2)))
    fs = None
    for hdr in ("impl FromStr for " + enum, "impl core::str::FromStr for " + enum):
        try:
            _, _, fs = locate(path, [hdr, "fn from_str"])
            fs_hdr = hdr
            break
        except ExtractError:
            continue
    if fs is None:
        raise ExtractError("E9: FromStr impl of %s not found" % enum)
    # the associated error type
    _, _, impl_it = locate(path, [fs_hdr])
    impl_text = src[impl_it.open:impl_it.end]
    em_ = re.search(r"type\s+Err\s*=\s*([A-Za-z_][A-Za-z0-9_:]*)\s*;", impl_text)
    if not em_:
        raise ExtractError("E9: type Err of %s not found" % enum)
    err_ty = em_.group(1)
    fbody = src[fs.open:fs.end + 1]
    lits = sorted(set(re.findall(r"\"((?:[^\"\\]|\\.)*)\"", "\n".join(l for l in fbody.split("\n") if "with_message" not in l)) + [a[1] for a in arms]))
    origin = "%s:%d" % (path, lineno(src, fs.start))
    reveals = " ".join('reveal_strlit("%s");' % l for l in lits)
    # contract of from_str, generated from its own arms and CHECKED by Verus against the verbatim body
    fm = re.match(r"\s*\{\s*match\s+s\s*\{(.*)\}\s*\}\s*$", mask_source(fbody), re.S)
    if not fm:
        raise ExtractError("E9: from_str of %s is not a single `match s { .. }`" % enum)
    finner = fbody[fm.start(1):fm.end(1)]
    ens = []
    all_l = []
    for part in split_top_commas(finner):
        part = part.strip()
        am = re.match(r"((?:\"(?:[^\"\\]|\\.)*\"\s*\|?\s*)+)=>\s*Ok\((?:Self|%s)::([A-Za-z_][A-Za-z0-9_]*)\)$" % re.escape(enum), part, re.S)
        if am:
            for l in re.findall(r"\"((?:[^\"\\]|\\.)*)\"", am.group(1)):
                ens.append('s == "%s" ==> r is Ok && r->Ok_0 == %s::%s' % (l, enum, am.group(2)))
                all_l.append(l)
        elif part.startswith("_"):
            continue
        else:
            raise ExtractError("E9: unsupported from_str arm %r of %s" % (part, enum))
    ens.append("!(" + " || ".join('s == "%s"' % l for l in all_l) + ") ==> r is Err")
    em.emit("impl %s {" % enum, origin)
    em.emit("pub fn from_str(s: &str) -> (r: Result<Self, %s>)\n    ensures\n        %s," % (err_ty, ",\n        ".join(ens)), origin)
    body_line0 = lineno(src, fs.open)
    fb = fbody.replace("Self::Err", err_ty)
    fb = "{\n    proof { " + reveals + " }" + fb[1:]
    for k, ln in enumerate(fb.split("\n")):
        em.lines.append((ln, "%s:~%d" % (path, body_line0 + k)))
    em.emit("}", origin)
    em.fns.append({"name": "from_str", "target": "%s :: %s :: from_str" % (path, fs_hdr), "kind": "fn", "src": origin,
                   "gen_from": 0, "gen_to": 0, "clauses": 0, "src_lines": [lineno(src, fs.start), lineno(src, fs.end)]})
    dorigin = "%s:%d" % (path, lineno(src, disp.start))
    for (variant, lit) in arms:
        name = "rt_%s_%s" % (enum, variant)
        em.emit("pub fn %s() -> (r: Result<%s, %s>)\n    ensures r is Ok, r->Ok_0 == %s::%s,\n{\n    proof { %s }\n    %s::from_str(\"%s\")\n}" % (
            name, enum, err_ty, enum, variant, reveals, enum, lit), dorigin + " (E9: Display arm %s => %r)" % (variant, lit))
        em.fns.append({"name": name, "target": "%s :: Display/FromStr round trip %s::%s (%r)" % (path, enum, variant, lit), "kind": "fn", "src": dorigin,
                       "gen_from": 0, "gen_to": 0, "clauses": 1, "src_lines": [lineno(src, disp.start), lineno(src, disp.end)]})
    em.rules.add("E9")


INT_TYPES = {"i8", "i16", "i32", "i64", "i128", "isize", "u8", "u16", "u32", "u64", "u128", "usize"}


def gen_ord_spec(it, text):
    """E6: derive(PartialOrd, Ord) == lexicographic order over the fields / variant order, re-derived from the
    extracted declaration on every run."""
    name = it.name
    m = mask_source(text)
    ob = m.index("{") if "{" in m else -1
    if it.kind == "struct" and ob < 0:
        # tuple struct `struct A(pub i128);`
        po = m.index("(")
        inner = text[po + 1:match_brace(m, po)]
        fields = []
        for k, part in enumerate(split_top_commas(inner)):
            ty = re.sub(r"^pub(\s*\([^)]*\))?\s*", "", part.strip())
            fields.append((str(k), ty))
    elif it.kind == "struct":
        inner = text[ob + 1:match_brace(m, ob)]
        fields = []
        for part in split_top_commas(mask_keep_code(inner)):
            mm = re.match(r"(?:pub(?:\s*\([^)]*\))?\s+)?([A-Za-z_][A-Za-z0-9_]*)\s*:\s*(.+)$", part.strip(), re.S)
            if not mm:
                raise ExtractError("E6: cannot parse field %r of %s" % (part, name))
            fields.append((mm.group(1), mm.group(2).strip()))
    if it.kind == "struct":
        arms = []
        for (f, ty) in fields:
            if ty in INT_TYPES:
                c = "cmp_int(a.%s as int, b.%s as int)" % (f, f)
            else:
                c = "lex_%s(a.%s, b.%s)" % (re.sub(r"[^A-Za-z0-9_]", "_", ty), f, f)
            arms.append((f, c))
        body = ""
        for (f, c) in arms[:-1]:
            body += "if a.%s != b.%s { %s } else " % (f, f, c)
        body += "{ %s }" % arms[-1][1] if len(arms) > 1 else arms[-1][1]
        lex = "pub open spec fn lex_%s(a: %s, b: %s) -> core::cmp::Ordering {\n    %s\n}\n" % (name, name, name, body)
    else:
        inner = text[ob + 1:match_brace(m, ob)]
        disc = -1
        arms = []
        for part in split_top_commas(mask_keep_code(inner)):
            part = part.strip()
            if not part:
                continue
            mm = re.match(r"([A-Za-z_][A-Za-z0-9_]*)\s*(?:=\s*(-?\d+))?$", part)
            if not mm:
                raise ExtractError("E6: enum %s has a non-unit variant %r" % (name, part))
            disc = int(mm.group(2)) if mm.group(2) is not None else disc + 1
            arms.append("%s::%s => %d" % (name, mm.group(1), disc))
        lex = ("pub open spec fn rank_%s(a: %s) -> int {\n    match a { %s }\n}\n" % (name, name, ", ".join(arms)) +
               "pub open spec fn lex_%s(a: %s, b: %s) -> core::cmp::Ordering { cmp_int(rank_%s(a), rank_%s(b)) }\n" % (name, name, name, name, name))
    return lex + (
        "impl vstd::std_specs::cmp::PartialOrdSpecImpl for %s {\n"
        "    open spec fn obeys_partial_cmp_spec() -> bool { true }\n"
        "    open spec fn partial_cmp_spec(&self, other: &Self) -> Option<core::cmp::Ordering> { Some(lex_%s(*self, *other)) }\n}\n"
        "impl vstd::std_specs::cmp::OrdSpecImpl for %s {\n"
        "    open spec fn obeys_cmp_spec() -> bool { true }\n"
        "    open spec fn cmp_spec(&self, other: &Self) -> core::cmp::Ordering { lex_%s(*self, *other) }\n}\n" % (name, name, name, name))


def mask_keep_code(text):
    """strip comments and attributes from a declaration body, keep code"""
    m = mask_source(text)
    out = []
    for ln in m.split("\n"):
        if ln.strip().startswith("#["):
            continue
        out.append(ln)
    return "\n".join(out)


def generate(unit, out_path=None):
    tmpl = os.path.join(VERIF, "units", unit + ".vrs")
    em = Emitter(unit)
    _wr_types.clear()
    _capi_alias.clear()
    _capi_ids.clear()
    _wr_callees.clear()

    def walk(path, depth=0):
        if depth > 5:
            raise ExtractError("include depth")
        for node in parse_template(path):
            if node[0] == "text":
                em.lines.append((node[2], "%s:%d" % (os.path.relpath(path, VERIF), node[1])))
            elif node[0] == "include":
                walk(os.path.join(VERIF, node[2]), depth + 1)
            elif node[0] == "include_assumed":
                # spec fns are kept; every proof fn (lemma) becomes external_body: assumed here, proved where the file is
                # included normally (recorded in trusted list)
                ipath = os.path.join(VERIF, node[2])
                for k, ln in enumerate(open(ipath, encoding="utf-8").read().split("\n")):
                    if re.match(r"^\s*(pub\s+)?(broadcast\s+)?proof\s+fn\s", ln):
                        em.lines.append(("#[verifier::external_body]", "%s:%d" % (node[2], k + 1)))
                    em.lines.append((ln, "%s:%d" % (node[2], k + 1)))
                em.trusted.append({"fn": "lemmas of " + node[2], "how": "assumed in this unit (include_assumed); proved in the unit that includes the file normally"})
            elif node[0] == "fn":
                emit_fn(em, node[1], path)
            elif node[0] == "item":
                emit_item(em, node[1])
            elif node[0] == "roundtrip":
                emit_roundtrip(em, node[2])
            elif node[0] == "wrappers":
                emit_wrappers(em, node[2])
            elif node[0] == "capi_alias":
                a, _, b = node[2].partition("=>")
                _capi_alias[a.strip()] = b.strip()
            elif node[0] == "capi":
                emit_capi(em, node[2])
            elif node[0] == "wrapper_types":
                emit_wrapper_types(em)

    walk(tmpl)
    text = "\n".join(l for (l, _) in em.lines) + "\n"
    # trusted-base scan
    scan = []
    for k, (ln, org) in enumerate(em.lines):
        for pat in ("assume_specification", "external_body", "admit(", "assume(", "#[verifier::truncate]", "external_fn_specification", "#[verifier::external"):
            if pat in ln and not ln.strip().startswith("//"):
                scan.append({"line": k + 1, "what": pat, "text": ln.strip()[:160], "origin": org})
    meta = {
        "unit": unit,
        "functions": em.fns,
        "items": em.items,
        "rules": {k: RULES.get(k, "") for k in sorted(em.rules)},
        "substitutions": em.substs,
        "trusted": em.trusted,
        "trusted_scan": scan,
        "origins": [o for (_, o) in em.lines],
    }
    if out_path:
        os.makedirs(os.path.dirname(out_path), exist_ok=True)
        with open(out_path, "w", encoding="utf-8") as f:
            f.write(text)
        with open(out_path + ".meta.json", "w", encoding="utf-8") as f:
            json.dump(meta, f)
    return text, meta


if __name__ == "__main__":
    try:
        text, meta = generate(sys.argv[1], sys.argv[2] if len(sys.argv) > 2 else None)
        if len(sys.argv) <= 2:
            sys.stdout.write(text)
    except ExtractError as e:
        print("UNDECIDED extract: %s" % e, file=sys.stderr)
        sys.exit(2)
