#!/usr/bin/env python3
"""Run Verus on generated unit files, classify the result per function (obligation)."""
import json
import os
import re
import subprocess
import sys
import time

sys.path.insert(0, os.path.dirname(os.path.abspath(__file__)))
import extract  # noqa: E402

VERIF = extract.VERIF
GEN = os.path.join(VERIF, "gen", "run-%d" % os.getpid()) if not os.environ.get("VERIF_GEN_FLAT") else os.path.join(VERIF, "gen")


def cleanup_gen():
    import shutil
    if not os.environ.get("VERIF_KEEP_GEN") and GEN != os.path.join(VERIF, "gen"):
        shutil.rmtree(GEN, ignore_errors=True)

VIOLATION_MSGS = (
    "postcondition not satisfied", "precondition not satisfied", "assertion failed",
    "possible arithmetic underflow/overflow", "invariant not satisfied", "possible division by zero",
    "decreases not satisfied", "loop invariant not preserved", "recommendation not met",
    "index out of bounds", "possible bit shift underflow/overflow", "unreachable", "failed precondition",
    "could not prove termination", "cannot show invariant holds",
    "unable to prove post-condition of closure", "unable to prove pre-condition of closure", "loop invariant not satisfied",
)
UNDECIDED_MSGS = ("Resource limit (rlimit) exceeded", "rlimit", "timed out", "smt solver")


def parse_errors(stderr, gen_name):
    """-> list of dict(msg, line)"""
    errs = []
    cur = None
    for ln in stderr.split("\n"):
        m = re.match(r"^(error|warning|note)(\[[A-Z0-9]+\])?: (.*)$", ln)
        if m:
            if m.group(1) == "error":
                cur = {"msg": m.group(3).strip(), "line": None, "code": m.group(2)}
                errs.append(cur)
            else:
                cur = None
            continue
        m = re.match(r"^\s+--> (.*?):(\d+):(\d+)", ln)
        if m and cur is not None and cur["line"] is None:
            cur["line"] = int(m.group(2))
            cur["file"] = m.group(1)
    return [e for e in errs if not e["msg"].startswith("aborting due to")]


def fn_spans(gen_text):
    """hand-written and extracted fns: list of (start_line, name)"""
    spans = []
    for k, ln in enumerate(gen_text.split("\n")):
        m = re.match(r"^\s*(?:pub\s+)?(?:open\s+|closed\s+)?(?:const\s+)?(?:proof\s+|spec\s+|exec\s+)?(?:const\s+)?fn\s+([A-Za-z_][A-Za-z0-9_]*)", ln)
        if m:
            spans.append((k + 1, m.group(1)))
    return spans


def fn_at(spans, line):
    name = None
    for (s, n) in spans:
        if s <= line:
            name = n
        else:
            break
    return name


def run_unit(unit, rlimit=None, seed=None, threads=4, timeout=900, spinoff=False):
    """Returns dict(status: ok|violation|undecided, ...)"""
    t0 = time.time()
    gen_path = os.path.join(GEN, unit + ".rs")
    res = {"unit": unit, "status": "undecided", "reason": None, "functions": [], "errors": [], "wall_s": 0.0}
    try:
        text, meta = extract.generate(unit, gen_path)
    except extract.ExtractError as e:
        res["reason"] = "extract: %s" % e
        res["wall_s"] = time.time() - t0
        return res
    res["meta"] = {k: meta[k] for k in ("functions", "items", "rules", "substitutions", "trusted", "trusted_scan")}
    origins = meta["origins"]
    # refuse assume()/admit() inside the verified text
    for sc in meta["trusted_scan"]:
        # axioms in hand-written spec files are listed in trusted_base; inside text extracted from /repo they are refused
        if sc["what"] in ("admit(", "assume(") and sc["origin"].startswith(("src/", "provider/", "temporal_capi/")):
            res["reason"] = "assume/admit in verified text at gen line %d" % sc["line"]
            return res
    cmd = ["verus", os.path.basename(gen_path), "--output-json", "--time", "--num-threads", str(threads), "--multiple-errors", "5"]
    if rlimit:
        cmd += ["--rlimit", str(rlimit)]
    if seed is not None:
        cmd += ["--smt-option", "smt.random_seed=%d" % seed]
    if spinoff:
        cmd += ["-V", "spinoff-all"]
    res["cmd"] = " ".join(cmd)
    try:
        p = subprocess.run(cmd, cwd=GEN, capture_output=True, text=True, timeout=timeout)
    except subprocess.TimeoutExpired:
        res["reason"] = "verus timed out after %ds" % timeout
        res["wall_s"] = time.time() - t0
        return res
    res["wall_s"] = time.time() - t0
    try:
        out = json.loads(p.stdout)
    except Exception:
        res["reason"] = "verus produced no JSON: " + (p.stderr[-2000:] or p.stdout[-500:])
        return res
    vr = out.get("verification-results", {})
    if vr.get("encountered-vir-error") or "verified" not in vr:
        res["reason"] = "verus rejected the unit (rustc/VIR error): " + p.stderr[-3000:]
        res["stderr"] = p.stderr
        return res
    spans = fn_spans(text)
    fb = []
    try:
        for mod in out["times-ms"]["smt"]["smt-run-module-times"]:
            fb += mod.get("function-breakdown", [])
    except Exception:
        pass
    crate = os.path.basename(gen_path)[:-3]
    funcs = {}
    for f in fb:
        name = f["function"]
        if name.startswith(crate + "::"):
            name = name[len(crate) + 2:]
        funcs[name] = {"name": name, "success": bool(f.get("success")), "time_us": f.get("time-micros", 0), "rlimit": f.get("rlimit", 0), "mode": f.get("mode:")}
    if "panicked at rust_verify" in p.stderr or "internal error: generated ill-typed AIR" in p.stderr:
        res["reason"] = "verus internal error (panic): " + " ".join(p.stderr[p.stderr.find("panicked at"):][:300].split())
    errors = parse_errors(p.stderr, os.path.basename(gen_path))
    for e in errors:
        e["fn"] = fn_at(spans, e["line"]) if e["line"] else None
        if e["line"] and e["line"] - 1 < len(origins):
            e["origin"] = origins[e["line"] - 1]
    res["functions"] = sorted(funcs.values(), key=lambda f: f["name"])
    res["errors"] = errors
    res["verified"] = vr.get("verified", 0)
    res["verus_errors"] = vr.get("errors", 0)
    res["smt_ms"] = out.get("times-ms", {}).get("smt", {}).get("smt-run", 0)
    res["total_ms"] = out.get("times-ms", {}).get("total", 0)
    res["verus_version"] = out.get("verus", {}).get("version")
    res["stderr_tail"] = p.stderr[-6000:]
    return res


def known_residuals():
    try:
        return set(x.get("obligation") for x in json.load(open(os.path.join(VERIF, "known_findings.json")))["findings"] if x.get("status") == "known")
    except Exception:
        return set()


def classify(res):
    """Set res['status'] and res['failed'] (list of dict(fn, kind, msg, origin)), honouring the canary."""
    if res.get("reason"):
        res["status"] = "undecided"
        return res
    unit = res["unit"]
    canary = "canary_" + unit
    failed, undecided = [], []
    canary_failed = False
    modes = {f["name"].split("::")[-1]: f.get("mode") for f in res.get("functions", [])}
    for e in res["errors"]:
        fn = e.get("fn")
        msg = e["msg"]
        if fn == canary:
            canary_failed = True
            continue
        if any(u in msg for u in UNDECIDED_MSGS):
            if "%s/%s" % (unit, fn) in known_residuals():
                # the residual obligation of a recorded known finding is expected not to discharge: whether Z3 reaches the
                # failing assertion or its resource limit first is immaterial
                failed.append({"fn": fn, "msg": msg, "line": e.get("line"), "origin": e.get("origin") or ""})
            else:
                undecided.append({"fn": fn, "msg": msg})
        elif any(v in msg for v in VIOLATION_MSGS):
            # a hand-written proof fn (lemma) contains no text of /repo: its failure is solver/framework instability,
            # never a property violation -> undecided.  Extracted functions and exec theorems over them are violations.
            org = e.get("origin") or ""
            mode = modes.get(fn)
            if mode == "proof" and org.startswith(("units/", "specs/")):
                undecided.append({"fn": fn, "msg": "lemma not discharged (%s)" % msg})
            else:
                failed.append({"fn": fn, "msg": msg, "line": e.get("line"), "origin": org})
        else:
            undecided.append({"fn": fn, "msg": msg})
    res["failed"] = failed
    res["undecided_errors"] = undecided
    hard = [u for u in undecided if not any(x in u["msg"] for x in UNDECIDED_MSGS) and not u["msg"].startswith("lemma not discharged")]
    if hard:
        res["status"] = "undecided"
        res["reason"] = "verus/rustc rejected the unit: " + "; ".join("%s: %s" % (u["fn"], u["msg"]) for u in hard[:5])
        res["undecided_errors"] = []
    elif not canary_failed:
        res["status"] = "undecided"
        res["reason"] = "vacuity canary %s did not fail (inconsistent context?)" % canary
    elif failed:
        res["status"] = "violation"
    elif undecided:
        res["status"] = "undecided"
        res["reason"] = "; ".join("%s: %s" % (u["fn"], u["msg"]) for u in undecided[:5])
    else:
        res["status"] = "ok"
    return res


def run_unit_stable(unit, threads=4, seed=None):
    """Run once in the shared solver context (fast path).  A failure there is re-checked with every function in its own
    solver instance (-V spinoff-all): after one failed query the shared Z3 process was observed to fail the *next*
    function too, so only the isolated run names obligations.  rlimit-type results are retried once with 4x rlimit."""
    r = classify(run_unit(unit, threads=threads, seed=seed))
    if r["status"] == "undecided" and not r.get("undecided_errors"):
        # a transient failure of the tool chain (killed process, I/O) must not make the check exit 2: one more attempt;
        # a genuine extraction / rustc rejection fails again at once with the same reason
        time.sleep(1)
        first_reason = r.get("reason")
        r = classify(run_unit(unit, threads=threads, seed=seed))
        r["retried_after"] = first_reason
    try:
        known = set(x.get("obligation") for x in json.load(open(os.path.join(VERIF, "known_findings.json")))["findings"] if x.get("status") == "known")
    except Exception:
        known = set()
    if r["status"] == "violation" and not r.get("undecided_errors") and all("%s/%s" % (unit, f.get("fn")) in known for f in r.get("failed", [])):
        return r  # only the residual obligations of recorded known findings failed: nothing to re-attribute
    if r["status"] == "violation" or (r["status"] == "undecided" and r.get("undecided_errors")):
        r2 = classify(run_unit(unit, rlimit=40 if r["status"] == "undecided" else None, threads=max(threads, 8), seed=seed, spinoff=True))
        r2["first_attempt"] = {"status": r["status"], "failed": [f.get("fn") for f in r.get("failed", [])], "reason": r.get("reason")}
        r2["wall_s"] = r2.get("wall_s", 0) + r.get("wall_s", 0)
        return r2
    return r


if __name__ == "__main__":
    r = run_unit_stable(sys.argv[1])
    r.pop("meta", None)
    print(json.dumps({k: v for k, v in r.items() if k not in ("stderr_tail",)}, indent=1)[:6000])
    print(r["status"])
