#!/usr/bin/env python3
"""Run registered checks against each seeded change: apply to /repo, run the property's quick check (and any extra
checks given), undo.  Writes seeded/<id>/result.json.  Never commits anything in /repo."""
import json, os, subprocess, sys
V = os.path.dirname(os.path.dirname(os.path.abspath(__file__)))
ids = sys.argv[1:] or sorted(os.listdir(os.path.join(V, "seeded")))
props = json.load(open(os.path.join(V, "tools", "props.json")))
# the seeded change is applied to a scratch worktree of /repo's HEAD (never to /repo itself); checks follow VERIF_REPO
WT = "/var/tmp/verif-seed-wt"
subprocess.run(["git", "-C", "/repo", "worktree", "remove", "--force", WT], capture_output=True)
subprocess.run(["git", "-C", "/repo", "worktree", "add", "-f", "--detach", WT, "HEAD"], check=True, capture_output=True)
ENV = dict(os.environ, VERIF_REPO=WT, VERIF_EVIDENCE_DIR="/var/tmp/verif-seed-evidence")
for sid in ids:
    d = os.path.join(V, "seeded", sid)
    meta = json.load(open(os.path.join(d, "meta.json")))
    pid = meta["property"]
    checks = [pid] + [c for c in meta.get("also_run", []) if c != pid]
    a = subprocess.run(["git", "-C", WT, "apply", os.path.join(d, "patch.diff")], capture_output=True, text=True)
    if a.returncode != 0:
        print(sid, "patch does not apply:", a.stderr[:200]); continue
    res = {}
    try:
        for c in checks:
            if c not in props:
                res[c] = {"exit": None, "note": "property not claimed"}; continue
            p = subprocess.run([os.path.join(V, "check"), c, "--tier", "quick"], cwd=V, capture_output=True, text=True, env=ENV)
            lines = [l for l in p.stdout.split("\n") if l.startswith(("VIOLATION", "UNDECIDED", "KNOWN"))]
            rp = None
            for l in lines:
                if l.startswith("VIOLATION"):
                    rp = l.split("replay=")[1].split()[0]
            doc = json.load(open(rp)) if rp and os.path.exists(rp) else None
            res[c] = {"exit": p.returncode, "lines": lines[:6], "replay": {k: doc.get(k) for k in ("obligation", "inputs", "expected", "observed", "reproduced")} if doc else None}
    finally:
        subprocess.run(["git", "-C", WT, "checkout", "--", "."], check=True)
    caught = any(r.get("exit") == 1 for r in res.values())
    json.dump({"caught": caught, "checks": res}, open(os.path.join(d, "result.json"), "w"), indent=1)
    print(sid, "CAUGHT" if caught else "MISSED", {c: r.get("exit") for c, r in res.items()}, [r["replay"]["obligation"] for r in res.values() if r.get("replay")])
subprocess.run(["git", "-C", "/repo", "worktree", "remove", "--force", WT], capture_output=True)
import shutil; shutil.rmtree("/var/tmp/verif-seed-evidence", ignore_errors=True)
