#!/usr/bin/env python3
"""Regenerate obligations.lock: the set of obligation (function) names every unit must generate.
Run only on a tree where every unit verifies; a later run that generates fewer is UNDECIDED, never a pass."""
import json, os, sys
sys.path.insert(0, os.path.dirname(os.path.abspath(__file__)))
import vrun
V = vrun.VERIF
units = sorted(f[:-4] for f in os.listdir(os.path.join(V, "units")) if f.endswith(".vrs"))
lock = {}
for u in units:
    r = vrun.run_unit_stable(u, threads=8)
    known = set(x.get("obligation") for x in json.load(open(os.path.join(V, "known_findings.json")))["findings"] if x.get("status") == "known")
    if r["status"] == "violation" and all("%s/%s" % (u, f["fn"]) in known for f in r.get("failed", [])):
        r["status"] = "ok"
    if r["status"] != "ok":
        print("unit %s is %s: %s -- lock not written" % (u, r["status"], r.get("reason")))
        sys.exit(1)
    lock[u] = sorted(f["name"] for f in r["functions"] if f["name"].split("::")[-1] != "canary_" + u)
    print(u, len(lock[u]))
json.dump(lock, open(os.path.join(V, "obligations.lock"), "w"), indent=0, sort_keys=True)
vrun.cleanup_gen()
