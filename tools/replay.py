#!/usr/bin/env python3
"""Native replay: build /verif/replay against the current /repo and search for a failing input of a property's
executable oracle through the public API.  Only called after a verifier obligation has failed, or for --replay."""
import hashlib
import json
import os
import subprocess

VERIF = os.path.dirname(os.path.dirname(os.path.abspath(__file__)))
REPO = os.environ.get("VERIF_REPO", "/repo")
SEARCHABLE = {"C01", "C02", "C03", "C04", "C05", "C06", "C07", "C08", "C09", "C10", "C11", "C12", "C13", "C14", "C15", "C17", "C18", "C19"}


def build():
    key = hashlib.sha1(REPO.encode()).hexdigest()[:8]
    d = os.path.join(VERIF, ".cache", "rp-" + key)
    os.makedirs(d, exist_ok=True)
    toml = open(os.path.join(VERIF, "replay", "Cargo.toml.in")).read().replace("@REPO@", REPO)
    with open(os.path.join(d, "Cargo.toml"), "w") as f:
        f.write(toml)
    lock = os.path.join(REPO, "Cargo.lock")
    if os.path.exists(lock) and not os.path.exists(os.path.join(d, "Cargo.lock")):
        with open(os.path.join(d, "Cargo.lock"), "w") as f:
            f.write(open(lock).read())
    link = os.path.join(d, "src")
    if not os.path.islink(link):
        os.symlink(os.path.join(VERIF, "replay", "src"), link)
    env = dict(os.environ, CARGO_NET_OFFLINE="true")
    p = subprocess.run(["cargo", "build", "--offline", "-q"], cwd=d, env=env, capture_output=True, text=True, timeout=1200)
    if p.returncode != 0:
        raise RuntimeError("replay crate does not build against %s: %s" % (REPO, p.stderr[-1500:]))
    return os.path.join(d, "target", "debug", "verif_replay")


def search(pid, violation, seed, budget=200000):
    if pid not in SEARCHABLE:
        return None
    exe = build()
    cmd = [exe, pid, str(seed or 1), str(budget)]
    p = subprocess.run(cmd, capture_output=True, text=True, timeout=1200)
    fails = []
    for ln in p.stdout.split("\n"):
        ln = ln.strip()
        if ln.startswith("{"):
            try:
                fails.append(json.loads(ln))
            except Exception:
                pass
    if p.returncode == 1 and fails:
        return {"inputs": fails[0]["input"], "what": fails[0]["what"], "expected": fails[0]["expected"], "observed": fails[0]["observed"],
                "more": fails[1:], "reproduced": True, "cmd": " ".join(cmd), "source": "native oracle search on the real code (after the obligation failed)"}
    return {"reproduced": False, "cmd": " ".join(cmd), "search_exit": p.returncode}


def rerun(path):
    doc = json.load(open(path))
    pid = doc["property"]
    r = search(pid, None, 1)
    print(json.dumps({"obligation": doc.get("obligation"), "replay": r}, indent=1))
    if r and r.get("reproduced"):
        print("REPRODUCED property=%s input=%s expected=%s observed=%s" % (pid, r["inputs"], r["expected"], r["observed"]))
        return 1
    print("not reproduced on the current tree")
    return 0
