#!/bin/bash
# usage: seedconfirm.sh <worktree> <seed-dir>   -> confirms: suite passes + demo fails with patch; demo passes without
WT=$1; SD=$2
cd $WT || exit 2
git checkout -q -- . ; rm -rf tests/verif_demo.rs
git apply $SD/patch.diff || { echo "APPLY-FAILED"; exit 2; }
mkdir -p tests; cp $SD/demo.rs tests/verif_demo.rs
SUITE=$(cargo test --workspace --no-fail-fast --offline --lib --bins 2>&1 | grep -E "^test result" | grep -v " 0 failed" | wc -l)
SUITE_DOC=$(cargo test --workspace --no-fail-fast --offline --doc 2>&1 | grep -E "^test result" | grep -v " 0 failed" | wc -l)
DEMO_WITH=$(cargo test --offline --features compiled_data --test verif_demo 2>&1 | grep -E "^test result" | tail -1)
git checkout -q -- src provider temporal_capi 2>/dev/null
DEMO_WITHOUT=$(cargo test --offline --features compiled_data --test verif_demo 2>&1 | grep -E "^test result" | tail -1)
rm -rf tests/verif_demo.rs; rmdir tests 2>/dev/null
echo "suite_failing_groups=$SUITE doc_failing_groups=$SUITE_DOC"
echo "demo_with_patch: $DEMO_WITH"
echo "demo_without_patch: $DEMO_WITHOUT"
