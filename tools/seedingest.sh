#!/bin/bash
# usage: seedingest.sh <PROP> <worktree>  -> moves worktree to current /repo HEAD, confirms seeds 1,2, stores confirmed ones under seeded/<PROP>-<n>
P=$1; WT=$2; OFF=${3:-0}; V=/verif
HEAD=$(git -C /repo rev-parse HEAD)
( cd $WT && git checkout -q -- . 2>/dev/null; git checkout -q --detach $HEAD ) || exit 2
for n in 1 2; do
  SD=$WT/seeded/$n
  [ -f $SD/patch.diff ] || continue
  OUT=$(bash $V/tools/seedconfirm.sh $WT $SD 2>&1)
  echo "== $P-$n"; echo "$OUT"
  if echo "$OUT" | grep -q "suite_failing_groups=0 doc_failing_groups=0" && echo "$OUT" | grep "demo_with_patch" | grep -qv " 0 failed" && echo "$OUT" | grep "demo_without_patch" | grep -q " 0 failed"; then
    D=$V/seeded/$P-$((n+OFF)); mkdir -p $D
    cp $SD/patch.diff $SD/demo.rs $D/; [ -f $SD/notes.md ] && cp $SD/notes.md $D/
    printf '{"property": "%s", "source": "fresh sub-agent given only the property text", "confirmed_at": "%s", "confirm": %s}\n' $P $HEAD "$(echo "$OUT" | python3 -c 'import sys,json; print(json.dumps(sys.stdin.read()))')" > $D/meta.json
    echo "CONFIRMED $P-$((n+OFF))"
  else
    echo "NOT-CONFIRMED $P-$n"
  fi
done
