#!/usr/bin/env python3
"""dev helper: run a unit and print a compact report"""
import sys, os, json
os.environ["VERIF_GEN_FLAT"] = "1"
sys.path.insert(0, os.path.dirname(os.path.abspath(__file__)))
import vrun
r = vrun.run_unit_stable(sys.argv[1], threads=8)
print("STATUS", r["status"], "verified", r.get("verified"), "errors", r.get("verus_errors"), "wall %.1fs" % r["wall_s"], "smt_ms", r.get("smt_ms"))
if r.get("reason"): print("REASON", r["reason"][:3000])
for e in r.get("errors", []):
    print("  ERR fn=%s line=%s origin=%s :: %s" % (e.get("fn"), e.get("line"), e.get("origin"), e["msg"][:300]))
if "-v" in sys.argv:
    print(r.get("stderr_tail", ""))
slow = sorted(r.get("functions", []), key=lambda f: -f["time_us"])[:5]
print("slowest:", [(f["name"], f["time_us"] // 1000) for f in slow])
