use crate::{oracle, Failure, Rng};
use crate::c13::Synth;
use temporal_rs::options::{ArithmeticOverflow, DifferenceSettings, Unit};
use temporal_rs::primitive::FiniteF64 as F;
use temporal_rs::{Calendar, Duration, TimeZone, ZonedDateTime};
use std::panic::{catch_unwind, AssertUnwindSafe};

const NS_DAY: i128 = 86_400_000_000_000;

fn off(p: &Synth, t: i128) -> i128 {
    let s = t.div_euclid(1_000_000_000);
    let mut o = p.initial; for (at, new) in &p.transitions { if s >= *at as i128 { o = *new; } }
    o as i128 * 1_000_000_000
}
/// first instant whose local calendar day is `day` (local day number): scan transitions
fn start_of_day(p: &Synth, day: i128) -> i128 {
    let local_midnight = day * NS_DAY;
    let v = p.possible(local_midnight);
    if let Some(t) = v.first() { return *t; }
    // midnight skipped: the transition instant that jumps over it
    let mut o1 = p.initial;
    for (at, o2) in &p.transitions {
        let tt = *at as i128 * 1_000_000_000;
        if tt + o1 as i128 * 1_000_000_000 <= local_midnight && local_midnight < tt + *o2 as i128 * 1_000_000_000 { return tt; }
        o1 = *o2;
    }
    local_midnight - off(p, local_midnight)
}

pub fn search(rng: &mut Rng, budget: u64, fails: &mut Vec<Failure>) {
    let tz = TimeZone::IanaIdentifier("Synthetic/Zone".into());
    for k in 0..(budget / 40).max(40) {
        let t1 = rng.range(-2_000_000_000, 2_000_000_000) as i64;
        let o0 = rng.range(-12 * 3600, 12 * 3600) as i64 / 900 * 900;
        let jump = (if k % 2 == 0 { rng.range(1800, 2 * 3600) as i64 } else { -(rng.range(1800, 2 * 3600) as i64) }) / 900 * 900;
        let p = Synth { initial: o0, transitions: vec![(t1, o0 + jump), (t1 + 150 * 86_400, o0)] };
        for _ in 0..4 {
            let t = t1 as i128 * 1_000_000_000 + rng.range(-3 * NS_DAY, 3 * NS_DAY);
            let Ok(z) = ZonedDateTime::try_new(t, Calendar::default(), tz.clone()) else { continue };
            let local = t + off(&p, t);
            let day = local.div_euclid(NS_DAY);
            let input = format!("initial={} transitions={:?} epoch_ns={t}", p.initial, p.transitions);
            // hours in day = real elapsed length of the local day
            let want_h = (start_of_day(&p, day + 1) - start_of_day(&p, day)) / 3_600_000_000_000;
            match catch_unwind(AssertUnwindSafe(|| z.hours_in_day_with_provider(&p))) {
                Ok(Ok(h)) => if h as i128 != want_h { fails.push(Failure { what: "hours_in_day".into(), input: input.clone(), expected: format!("{want_h}"), observed: format!("{h}") }); },
                other => fails.push(Failure { what: "hours_in_day failed".into(), input: input.clone(), expected: format!("{want_h}"), observed: format!("{:?}", other.map(|x| x.is_ok())) }),
            }
            match catch_unwind(AssertUnwindSafe(|| z.start_of_day_with_provider(&p).map(|s| s.epoch_nanoseconds().as_i128()))) {
                Ok(Ok(s)) => if s != start_of_day(&p, day) { fails.push(Failure { what: "start_of_day".into(), input: input.clone(), expected: format!("{}", start_of_day(&p, day)), observed: format!("{s}") }); },
                other => fails.push(Failure { what: "start_of_day failed".into(), input: input.clone(), expected: format!("{}", start_of_day(&p, day)), observed: format!("{:?}", other.map(|x| x.is_ok())) }),
            }
            // time units: exact timeline arithmetic
            let hrs = rng.range(-100, 100) as i64; let nsx = rng.range(-5_000_000_000, 5_000_000_000) as i64;
            if let Ok(d) = Duration::new(F::default(), F::default(), F::default(), F::default(), F::try_from(hrs as f64).unwrap(), F::default(), F::default(), F::default(), F::default(), F::try_from((nsx * if hrs < 0 { -1 } else { 1 } * if nsx < 0 { -1 } else { 1 }) as f64).unwrap()) {
                let tot = d.hours().as_inner() as i128 * 3_600_000_000_000 + d.nanoseconds().as_inner() as i128;
                match catch_unwind(AssertUnwindSafe(|| z.add_with_provider(&d, Some(ArithmeticOverflow::Constrain), &p).map(|r| r.epoch_nanoseconds().as_i128()))) {
                    Ok(Ok(r)) => if r != t + tot { fails.push(Failure { what: "add (time units)".into(), input: format!("{input} + {tot}ns"), expected: format!("{}", t + tot), observed: format!("{r}") }); },
                    _ => {}
                }
            }
            // date units on the wall clock: +n days keeps the wall-clock time (re-resolved compatibly)
            let nd = rng.range(-40, 40) as i64;
            if let Ok(d) = Duration::new(F::default(), F::default(), F::default(), F::try_from(nd as f64).unwrap(), F::default(), F::default(), F::default(), F::default(), F::default(), F::default()) {
                let target_local = local + nd as i128 * NS_DAY;
                let v = p.possible(target_local);
                if v.len() == 1 {
                    match catch_unwind(AssertUnwindSafe(|| z.add_with_provider(&d, Some(ArithmeticOverflow::Constrain), &p).map(|r| r.epoch_nanoseconds().as_i128()))) {
                        Ok(Ok(r)) => if r != v[0] { fails.push(Failure { what: "add (days on the wall clock)".into(), input: format!("{input} + {nd} days"), expected: format!("{}", v[0]), observed: format!("{r}") }); },
                        _ => {}
                    }
                }
            }
            // until with a time largest unit = exact elapsed time
            let t2 = t + rng.range(-5 * NS_DAY, 5 * NS_DAY);
            if let Ok(z2) = ZonedDateTime::try_new(t2, Calendar::default(), tz.clone()) {
                let mut s = DifferenceSettings::default(); s.largest_unit = Some(Unit::Hour);
                if let Ok(Ok(d)) = catch_unwind(AssertUnwindSafe(|| z.until_with_provider(&z2, s, &p))) {
                    let tot = ((d.hours().as_inner() as i128 * 60 + d.minutes().as_inner() as i128) * 60 + d.seconds().as_inner() as i128) * 1_000_000_000 + d.milliseconds().as_inner() as i128 * 1_000_000 + d.microseconds().as_inner() as i128 * 1000 + d.nanoseconds().as_inner() as i128;
                    if tot != t2 - t { fails.push(Failure { what: "until(largest hour)".into(), input: format!("{input} until {t2}"), expected: format!("{}", t2 - t), observed: format!("{tot}") }); }
                }
                // date largest unit: add maps back exactly.  Known finding (recorded in known_findings.json): when the
                // start is the LATER occurrence of a repeated wall-clock time and the end is on another local date, the
                // specified algorithm re-resolves the start's wall time with "compatible" (= earlier occurrence) and the
                // law cannot hold; that class is excluded here so that other violations stay visible.
                if p.possible(local).len() > 1 && p.possible(local)[0] != t { continue; }
                let mut s = DifferenceSettings::default(); s.largest_unit = Some(Unit::Day);
                if let Ok(Ok(d)) = catch_unwind(AssertUnwindSafe(|| z.until_with_provider(&z2, s, &p))) {
                    if let Ok(Ok(back)) = catch_unwind(AssertUnwindSafe(|| z.add_with_provider(&d, Some(ArithmeticOverflow::Constrain), &p).map(|r| r.epoch_nanoseconds().as_i128()))) {
                        if back != t2 { fails.push(Failure { what: "add(until(largest day)) != other".into(), input: format!("{input} until {t2}"), expected: format!("{t2}"), observed: format!("{back}") }); }
                    }
                }
            }
            if fails.len() >= 5 { return; }
        }
    }
    let _ = oracle::MIN_DAY;
}
