use crate::{Failure, Rng};
use temporal_rs::provider::TimeZoneProvider;
use temporal_rs::tzdb::FsTzdbProvider;
use std::panic::{catch_unwind, AssertUnwindSafe};

const ZONES: [&str; 12] = ["America/New_York", "Europe/London", "Australia/Sydney", "Asia/Kolkata", "Pacific/Apia", "America/Sao_Paulo", "Africa/Casablanca",
    "Asia/Tehran", "America/St_Johns", "Pacific/Chatham", "Europe/Moscow", "UTC"];

/// self-consistency of the bundled provider: the offset reported for an instant is the offset in force from the
/// transition it names (so at the transition second itself the NEW offset applies), the offset is constant between the
/// named transition and the queried instant, and answers do not depend on earlier queries.
pub fn search(rng: &mut Rng, budget: u64, fails: &mut Vec<Failure>) {
    let p = FsTzdbProvider::default();
    for k in 0..(budget / 20).max(200) {
        let zone = ZONES[(k % ZONES.len() as u64) as usize];
        let t_s = if k % 3 == 0 { rng.range(-2_000_000_000, 2_400_000_000) } else { rng.range(0, 1_900_000_000) } as i64;
        let q = |s: i64| catch_unwind(AssertUnwindSafe(|| p.get_named_tz_offset_nanoseconds(zone, s as i128 * 1_000_000_000)));
        let r = match q(t_s) { Ok(Ok(r)) => r, Ok(Err(_)) => continue, Err(_) => { fails.push(Failure { what: "offset lookup panicked".into(), input: format!("{zone} epoch_s={t_s}"), expected: "offset".into(), observed: "panic".into() }); continue } };
        if let Some(te) = r.transition_epoch {
            // Known finding (known_findings.json): beyond the last explicit transition the POSIX footer is resolved on UTC
            // calendar days, so for zones far from UTC (e.g. Pacific/Chatham) the switch is placed at the wrong instant.
            // That class is excluded so other violations stay visible.
            let footer_far = te > 2_140_000_000 && !matches!(zone, "America/New_York" | "Europe/London" | "America/St_Johns" | "UTC");
            if te <= t_s && !footer_far {
                // at the transition second the new offset is in force
                match q(te) {
                    Ok(Ok(at)) => if at.offset != r.offset { fails.push(Failure { what: "offset at the transition second".into(), input: format!("{zone} transition_epoch={te} (found from epoch_s={t_s})"), expected: format!("{}", r.offset), observed: format!("{}", at.offset) }); },
                    Ok(Err(_)) => {}
                    Err(_) => fails.push(Failure { what: "offset lookup panicked".into(), input: format!("{zone} epoch_s={te}"), expected: format!("{}", r.offset), observed: "panic".into() }),
                }
                // constant between the transition and t
                let mid = te + (t_s - te) / 2;
                if let Ok(Ok(m)) = q(mid) { if m.offset != r.offset { fails.push(Failure { what: "offset between a transition and the queried instant".into(), input: format!("{zone} epoch_s={mid}"), expected: format!("{}", r.offset), observed: format!("{}", m.offset) }); } }
            }
        }
        // history independence: ask again
        if let Ok(Ok(r2)) = q(t_s) { if r2.offset != r.offset { fails.push(Failure { what: "answer depends on earlier queries".into(), input: format!("{zone} epoch_s={t_s}"), expected: format!("{}", r.offset), observed: format!("{}", r2.offset) }); } }
        if fails.len() >= 5 { return; }
    }
}
