use crate::{Failure, Rng};
use temporal_rs::provider::TimeZoneProvider;
use temporal_rs::iso::IsoDateTime;
use crate::oracle;
use temporal_rs::tzdb::FsTzdbProvider;
use std::panic::{catch_unwind, AssertUnwindSafe};

const ZONES: [&str; 22] = ["America/New_York", "Europe/London", "Australia/Sydney", "Asia/Kolkata", "Pacific/Apia", "America/Sao_Paulo", "Africa/Casablanca",
    "Asia/Tehran", "America/St_Johns", "Pacific/Chatham", "Europe/Moscow", "UTC", "Africa/Monrovia", "America/Nuuk", "Antarctica/Troll", "Australia/Lord_Howe", "Europe/Dublin",
    "Asia/Kathmandu", "America/Caracas", "Pacific/Kiritimati", "America/Toronto", "Asia/Tokyo"];

fn iso_of(local_s: i64) -> Option<IsoDateTime> {
    let day = local_s.div_euclid(86_400); let t = local_s.rem_euclid(86_400);
    let (y, m, d) = oracle::civil_from_days(day);
    let mut date = temporal_rs::iso::IsoDate::default(); date.year = y as i32; date.month = m as u8; date.day = d as u8;
    let mut time = temporal_rs::iso::IsoTime::default(); time.hour = (t / 3600) as u8; time.minute = (t / 60 % 60) as u8; time.second = (t % 60) as u8;
    IsoDateTime::new(date, time).ok()
}

/// local date-time -> instants, checked against the provider's own instant -> offset answers (the direction unit tzif
/// proves): every returned instant reads back as the local time, the list is ascending, and every instant t = L - o
/// (o ranging over the offsets in force within a day of L) that reads back as L is in the list.
fn local_case(p: &FsTzdbProvider, zone: &str, local_s: i64, fails: &mut Vec<Failure>) {
    if local_s > 2_100_000_000 { return; } // footer region: known finding
    let Some(iso) = iso_of(local_s) else { return };
    let off = |s: i64| p.get_named_tz_offset_nanoseconds(zone, s as i128 * 1_000_000_000).ok().map(|r| r.offset);
    let got = match catch_unwind(AssertUnwindSafe(|| p.get_named_tz_epoch_nanoseconds(zone, iso))) {
        Ok(Ok(v)) => v.into_iter().map(|e| (e.as_i128() / 1_000_000_000) as i64).collect::<Vec<i64>>(),
        Ok(Err(_)) => return,
        Err(_) => { fails.push(Failure { what: "local -> instants panicked".into(), input: format!("{zone} local_s={local_s}"), expected: "a list".into(), observed: "panic".into() }); return }
    };
    let input = format!("{zone} local_s={local_s}");
    for w in got.windows(2) { if w[0] >= w[1] { fails.push(Failure { what: "local -> instants: not ascending".into(), input: input.clone(), expected: "ascending instants".into(), observed: format!("{got:?}") }); } }
    for t in &got { if let Some(o) = off(*t) { if *t + o != local_s { fails.push(Failure { what: "local -> instants: candidate does not read back".into(), input: input.clone(), expected: format!("{local_s}"), observed: format!("t={t} offset={o}") }); } } }
    let mut offsets: Vec<i64> = Vec::new();
    for dt in [-90_000i64, -50_000, -20_000, 0, 20_000, 50_000, 90_000] { if let Some(o) = off(local_s + dt) { if !offsets.contains(&o) { offsets.push(o); } } }
    let mut want: Vec<i64> = offsets.iter().map(|o| local_s - o).filter(|t| off(*t).map(|o| *t + o == local_s).unwrap_or(false)).collect();
    want.sort(); want.dedup();
    let mut sorted = got.clone(); sorted.sort();
    if sorted != want { fails.push(Failure { what: "local -> instants: wrong set".into(), input, expected: format!("{want:?}"), observed: format!("{got:?}") }); }
}

/// self-consistency of the bundled provider: the offset reported for an instant is the offset in force from the
/// transition it names (so at the transition second itself the NEW offset applies), the offset is constant between the
/// named transition and the queried instant, and answers do not depend on earlier queries.
pub fn search(rng: &mut Rng, budget: u64, fails: &mut Vec<Failure>) {
    let p = FsTzdbProvider::default();
    // history independence across zones (C15 last sentence): a provider that has answered for zone A answers for zone B
    // what a fresh provider answers - also when the two names share a long prefix
    for (a, b) in [("America/Indiana/Indianapolis", "America/Indiana/Knox"), ("America/Indiana/Knox", "America/Indiana/Indianapolis"), ("America/Argentina/Buenos_Aires", "America/Argentina/Ushuaia"),
        ("America/North_Dakota/Center", "America/North_Dakota/New_Salem"), ("America/Kentucky/Louisville", "America/Kentucky/Monticello"), ("Europe/London", "Europe/Lisbon"), ("Asia/Tokyo", "Asia/Tehran")] {
        let shared = FsTzdbProvider::default();
        for t_s in [-1_000_000_000i64, 0, 962_000_000, 1_594_000_000, 1_700_000_000] {
            let t = t_s as i128 * 1_000_000_000;
            let _ = catch_unwind(AssertUnwindSafe(|| shared.get_named_tz_offset_nanoseconds(a, t)));
            let got = catch_unwind(AssertUnwindSafe(|| shared.get_named_tz_offset_nanoseconds(b, t).ok().map(|r| r.offset)));
            let fresh = FsTzdbProvider::default();
            let want = catch_unwind(AssertUnwindSafe(|| fresh.get_named_tz_offset_nanoseconds(b, t).ok().map(|r| r.offset)));
            if let (Ok(g), Ok(w)) = (&got, &want) { if g != w { fails.push(Failure { what: "answer depends on the zones queried earlier".into(), input: format!("{b} epoch_s={t_s} after querying {a} on the same provider"), expected: format!("{w:?} (fresh provider)"), observed: format!("{g:?}") }); } }
        }
        if fails.len() >= 5 { return; }
    }
    // before the first transition of the table local time type 0 is in force (RFC 8536 section 3.2): Local Mean Time for the
    // IANA zones below (values of the zone files; unchanged across tzdata releases), in both directions
    for (zone, lmt) in [("America/New_York", -17762i64), ("Europe/London", -75), ("Australia/Sydney", 36292), ("Asia/Kolkata", 21208), ("Asia/Tokyo", 33539), ("America/Toronto", -19052), ("Europe/Moscow", 9017)] {
        for t_s in [-5_000_000_000i64, -4_000_000_000, -6_000_000_000] {
            match catch_unwind(AssertUnwindSafe(|| p.get_named_tz_offset_nanoseconds(zone, t_s as i128 * 1_000_000_000))) {
                Ok(Ok(r)) if r.offset == lmt => {}
                Ok(Err(_)) => {}
                other => fails.push(Failure { what: "offset before the first transition".into(), input: format!("{zone} epoch_s={t_s}"), expected: format!("{lmt} (local time type 0)"), observed: format!("{:?}", other.map(|x| x.map(|r| r.offset))) }),
            }
            if let Some(iso) = iso_of(t_s + lmt) {
                match catch_unwind(AssertUnwindSafe(|| p.get_named_tz_epoch_nanoseconds(zone, iso))) {
                    Ok(Ok(v)) if v.len() == 1 && v[0].as_i128() == t_s as i128 * 1_000_000_000 => {}
                    Ok(Err(_)) => {}
                    other => fails.push(Failure { what: "local -> instants before the first transition".into(), input: format!("{zone} local_s={}", t_s + lmt), expected: format!("[{t_s}]"), observed: format!("{:?}", other.map(|x| x.map(|v| v.iter().map(|e| e.as_i128() / 1_000_000_000).collect::<Vec<_>>()))) }),
                }
            }
        }
        if fails.len() >= 5 { return; }
    }
    for k in 0..(budget / 20).max(200) {
        let zone = ZONES[(k % ZONES.len() as u64) as usize];
        let t_s = if k % 3 == 0 { rng.range(-2_000_000_000, 2_400_000_000) } else { rng.range(0, 1_900_000_000) } as i64;
        let q = |s: i64| catch_unwind(AssertUnwindSafe(|| p.get_named_tz_offset_nanoseconds(zone, s as i128 * 1_000_000_000)));
        let r = match q(t_s) { Ok(Ok(r)) => r, Ok(Err(_)) => continue, Err(_) => { fails.push(Failure { what: "offset lookup panicked".into(), input: format!("{zone} epoch_s={t_s}"), expected: "offset".into(), observed: "panic".into() }); continue } };
        if let Some(te) = r.transition_epoch {
            // Known finding (known_findings.json): beyond the last explicit transition the POSIX footer places the rule-based
            // switches at the wrong instant (UTC calendar days for zones far from UTC; the week/weekday comparison around each
            // switch for all zones).  That region is excluded so other violations stay visible.
            let footer_far = te > 2_140_000_000;
            if te <= t_s && !footer_far {
                // at the transition second the new offset is in force
                match q(te) {
                    Ok(Ok(at)) => if at.offset != r.offset { fails.push(Failure { what: "offset at the transition second".into(), input: format!("{zone} transition_epoch={te} (found from epoch_s={t_s})"), expected: format!("{}", r.offset), observed: format!("{}", at.offset) }); },
                    Ok(Err(_)) => {}
                    Err(_) => fails.push(Failure { what: "offset lookup panicked".into(), input: format!("{zone} epoch_s={te}"), expected: format!("{}", r.offset), observed: "panic".into() }),
                }
                // constant between the transition and t
                let mid = te + (t_s - te) / 2;
                if let Ok(Ok(m)) = q(mid) { if m.offset != r.offset { fails.push(Failure { what: "offset between a transition and the queried instant".into(), input: format!("{zone} epoch_s={mid}"), expected: format!("{}", r.offset), observed: format!("{}", m.offset) }); } }
            }
        }
        // local -> instants around the transition this answer names, and at the queried time
        if let Some(te) = r.transition_epoch { for d in [-3700i64, -1800, -1, 0, 1, 1799, 1800, 3599, 3600, 3601, 7200] { local_case(&p, zone, te + r.offset + d, fails); } }
        local_case(&p, zone, t_s, fails);
        // history independence: ask again
        if let Ok(Ok(r2)) = q(t_s) { if r2.offset != r.offset { fails.push(Failure { what: "answer depends on earlier queries".into(), input: format!("{zone} epoch_s={t_s}"), expected: format!("{}", r.offset), observed: format!("{}", r2.offset) }); } }
        if fails.len() >= 5 { return; }
    }
}
