//! Native replay / counter-example search against the real code of /repo (public API only).
//! Used only AFTER a verifier obligation has failed (DESIGN §3.6), or to re-run a recorded replay file.
//! usage: verif_replay <property> <seed> [budget]      -> prints one JSON object per failing input, exit 1 if any
//!        verif_replay case <property> <json-args>     -> re-run one recorded input
use std::panic;

mod oracle;
mod c01;
mod c02;
mod c03;
mod c04;
mod c05;
mod c06;
mod c07;
mod c08;
mod c09;
mod c10;
mod c11;
mod c12;
mod c13;
mod c14;
mod c15;
mod c18;
mod c19;

pub struct Rng(pub u64);
impl Rng {
    pub fn next(&mut self) -> u64 {
        let mut x = self.0;
        x ^= x << 13;
        x ^= x >> 7;
        x ^= x << 17;
        self.0 = x;
        x
    }
    pub fn range(&mut self, lo: i128, hi: i128) -> i128 {
        let span = (hi - lo + 1) as u128;
        let v = ((self.next() as u128) << 64 | self.next() as u128) % span;
        lo + v as i128
    }
    pub fn pick<T: Copy>(&mut self, xs: &[T]) -> T {
        xs[(self.next() % xs.len() as u64) as usize]
    }
}

pub struct Failure {
    pub what: String,
    pub input: String,
    pub expected: String,
    pub observed: String,
}

pub fn esc(s: &str) -> String {
    s.replace('\\', "\\\\").replace('"', "\\\"").replace('\n', " ")
}

fn main() {
    let args: Vec<String> = std::env::args().collect();
    if args.len() < 3 {
        eprintln!("usage: verif_replay <property> <seed> [budget]");
        std::process::exit(2);
    }
    panic::set_hook(Box::new(|_| {}));
    let prop = args[1].as_str();
    let seed: u64 = args[2].parse().unwrap_or(1);
    let budget: u64 = args.get(3).and_then(|s| s.parse().ok()).unwrap_or(200_000);
    let mut rng = Rng(seed.wrapping_mul(0x9E3779B97F4A7C15) | 1);
    let mut fails: Vec<Failure> = Vec::new();
    match prop {
        "C01" => { c01::search(&mut rng, budget, &mut fails); if fails.is_empty() { c06::search(&mut rng, budget / 4, &mut fails); } }
        "C05" => c05::search(&mut rng, budget, &mut fails),
        "C07" => { c07::search(&mut rng, budget, &mut fails); if fails.is_empty() { c08::search(&mut rng, budget / 2, &mut fails); } }
        "C06" => c06::search(&mut rng, budget, &mut fails),
        "C11" => c11::search(&mut rng, budget, &mut fails),
        "C12" => { c12::search(&mut rng, budget, &mut fails); if fails.is_empty() { c11::search(&mut rng, budget / 4, &mut fails); } }
        "C08" => c08::search(&mut rng, budget, &mut fails),
        "C09" => c09::search(&mut rng, budget, &mut fails),
        "C13" => c13::search(&mut rng, budget, &mut fails),
        "C13-gap" => c13::search_gap(&mut rng, budget, &mut fails, 26 * 3600),
        "C18" | "C17" => c18::search(&mut rng, budget, &mut fails),
        "C19" => c19::search(&mut rng, budget, &mut fails),
        "C14" => { c14::search(&mut rng, budget, &mut fails); if fails.is_empty() { c13::search(&mut rng, budget / 4, &mut fails); } }
        "C15" => c15::search(&mut rng, budget, &mut fails),
        "C10" => c10::search(&mut rng, budget, &mut fails),
        "C04" => c04::search(&mut rng, budget, &mut fails),
        "C03" => { c03::search(&mut rng, budget, &mut fails); if fails.is_empty() { c04::search(&mut rng, budget, &mut fails); } }
        "C02" => c02::search(&mut rng, budget, &mut fails),
        _ => {
            eprintln!("no replay search for {prop}");
            std::process::exit(2);
        }
    }
    for f in fails.iter().take(5) {
        println!(
            "{{\"what\":\"{}\",\"input\":\"{}\",\"expected\":\"{}\",\"observed\":\"{}\"}}",
            esc(&f.what), esc(&f.input), esc(&f.expected), esc(&f.observed)
        );
    }
    std::process::exit(if fails.is_empty() { 0 } else { 1 });
}
