//! C05 oracle: PlainDateTime until/since (every largest unit, no rounding) and round, against exact ns arithmetic.
use crate::{oracle, Failure, Rng};
use temporal_rs::options::{ArithmeticOverflow, DifferenceSettings, RoundingIncrement, RoundingMode, RoundingOptions, Unit};
use temporal_rs::{Calendar, PlainDateTime};
use std::panic::catch_unwind;

const NS_DAY: i128 = 86_400_000_000_000;
fn dt_of(ns: i128) -> Option<PlainDateTime> {
    let day = ns.div_euclid(NS_DAY); let t = ns.rem_euclid(NS_DAY);
    let (y, m, d) = oracle::civil_from_days(day as i64);
    PlainDateTime::try_new(y as i32, m as u8, d as u8, (t / 3_600_000_000_000) as u8, (t / 60_000_000_000 % 60) as u8, (t / 1_000_000_000 % 60) as u8, (t / 1_000_000 % 1000) as u16, (t / 1000 % 1000) as u16, (t % 1000) as u16, Calendar::default()).ok()
}
fn ns_of(dt: &PlainDateTime) -> i128 {
    oracle::days_from_civil(dt.iso_year() as i64, dt.iso_month() as i64, dt.iso_day() as i64) as i128 * NS_DAY
        + ((((dt.hour() as i128 * 60 + dt.minute() as i128) * 60 + dt.second() as i128) * 1000 + dt.millisecond() as i128) * 1000 + dt.microsecond() as i128) * 1000 + dt.nanosecond() as i128
}
fn f(x: temporal_rs::primitive::FiniteF64) -> i128 { x.as_inner() as i128 }

pub fn search(rng: &mut Rng, budget: u64, fails: &mut Vec<Failure>) {
    let units = [Unit::Year, Unit::Month, Unit::Week, Unit::Day, Unit::Hour, Unit::Minute, Unit::Second, Unit::Millisecond, Unit::Microsecond, Unit::Nanosecond];
    for k in 0..(budget / 20) {
        // pairs close together (month ends, day borrow) and far apart
        let a = if k % 3 == 0 { rng.range(-8_000_000_000_000_000_000_000, 8_000_000_000_000_000_000_000) } else { rng.range(-60_000_000_000_000_000_000, 130_000_000_000_000_000_000) };
        let span = match k % 4 { 0 => rng.range(-3 * NS_DAY, 3 * NS_DAY), 1 => rng.range(-70 * NS_DAY, 70 * NS_DAY), 2 => rng.range(-900 * NS_DAY, 900 * NS_DAY), _ => rng.range(-400_000 * NS_DAY, 400_000 * NS_DAY) };
        // snap the start to a month end half of the time
        let a = if k % 2 == 0 { let day = a.div_euclid(NS_DAY); let (y, m, _) = oracle::civil_from_days(day as i64); oracle::days_from_civil(y, m, oracle::dim(y, m)) as i128 * NS_DAY + a.rem_euclid(NS_DAY) } else { a };
        let (Some(s), Some(e)) = (dt_of(a), dt_of(a + span)) else { continue };
        for u in units {
            let mut st = DifferenceSettings::default(); st.largest_unit = Some(u);
            let input = format!("start_ns={a} end_ns={} largestUnit={u}", a + span);
            let r = catch_unwind(|| s.until(&e, st));
            let Ok(r) = r else { fails.push(Failure { what: "PlainDateTime::until panicked".into(), input, expected: "a duration".into(), observed: "panic".into() }); continue };
            let Ok(d) = r else { continue };
            let fields = [f(d.years()), f(d.months()), f(d.weeks()), f(d.days()), f(d.hours()), f(d.minutes()), f(d.seconds()), f(d.milliseconds()), f(d.microseconds()), f(d.nanoseconds())];
            // a top field beyond 2^53 is not exactly representable in the duration's float64 fields (inherent to Temporal): not decided here
            let top = match u { Unit::Millisecond => span / 1_000_000, Unit::Microsecond => span / 1000, Unit::Nanosecond => span, _ => 0 };
            if top.abs() > 9_007_199_254_740_992 { continue; }
            if fields.iter().any(|x| *x > 0) && fields.iter().any(|x| *x < 0) { fails.push(Failure { what: "until: mixed signs".into(), input: input.clone(), expected: "one sign".into(), observed: format!("{fields:?}") }); }
            // inverse law
            match catch_unwind(|| s.add(&d, Some(ArithmeticOverflow::Constrain))) {
                Ok(Ok(back)) => if ns_of(&back) != a + span { fails.push(Failure { what: "start.add(start.until(end)) != end".into(), input: input.clone(), expected: format!("{}", a + span), observed: format!("{} via {d}", ns_of(&back)) }); },
                Ok(Err(_)) => {}
                Err(_) => fails.push(Failure { what: "PlainDateTime::add panicked".into(), input: input.clone(), expected: "a date-time".into(), observed: "panic".into() }),
            }
            // time and day largest units: exact elapsed time
            if !matches!(u, Unit::Year | Unit::Month | Unit::Week) {
                let total = fields[3] * NS_DAY + fields[4] * 3_600_000_000_000 + fields[5] * 60_000_000_000 + fields[6] * 1_000_000_000 + fields[7] * 1_000_000 + fields[8] * 1000 + fields[9];
                if total != span { fails.push(Failure { what: "until: elapsed time".into(), input: input.clone(), expected: format!("{span}"), observed: format!("{total} via {d}") }); }
            }
            // since is the negated until from the same receiver (no rounding): e.since(s) == -(e.until(s))
            if let (Ok(Ok(sn)), Ok(Ok(un))) = (catch_unwind(|| e.since(&s, st)), catch_unwind(|| e.until(&s, st))) {
                if format!("{sn}") != format!("{}", un.negated()) { fails.push(Failure { what: "end.since(start) != -(end.until(start))".into(), input, expected: format!("{}", un.negated()), observed: format!("{sn}") }); }
            }
            if fails.len() >= 5 { return; }
        }
        // round
        let (unit, unit_ns, incs): (Unit, i128, &[u32]) = match rng.next() % 7 { 0 => (Unit::Day, NS_DAY, &[1]), 1 => (Unit::Hour, 3_600_000_000_000, &[1, 2, 3, 4, 6, 8, 12]), 2 => (Unit::Minute, 60_000_000_000, &[1, 5, 15, 30]), 3 => (Unit::Second, 1_000_000_000, &[1, 10, 30]),
            4 => (Unit::Millisecond, 1_000_000, &[1, 10, 250, 500]), 5 => (Unit::Microsecond, 1000, &[1, 8, 500]), _ => (Unit::Nanosecond, 1, &[1, 4, 500]) };
        let inc = incs[(rng.next() % incs.len() as u64) as usize];
        let modes = [(RoundingMode::Ceil, oracle::Mode::Ceil), (RoundingMode::Floor, oracle::Mode::Floor), (RoundingMode::Expand, oracle::Mode::Expand), (RoundingMode::Trunc, oracle::Mode::Trunc), (RoundingMode::HalfCeil, oracle::Mode::HalfCeil),
            (RoundingMode::HalfFloor, oracle::Mode::HalfFloor), (RoundingMode::HalfExpand, oracle::Mode::HalfExpand), (RoundingMode::HalfTrunc, oracle::Mode::HalfTrunc), (RoundingMode::HalfEven, oracle::Mode::HalfEven)];
        let (mode, om) = modes[(rng.next() % 9) as usize];
        // put the time near a multiple or a midpoint of the step
        let step = unit_ns * inc as i128;
        let t = a.rem_euclid(NS_DAY);
        let t = match rng.next() % 4 { 0 => t / step * step, 1 => (t / step * step + step / 2).min(NS_DAY - 1), 2 => (t / step * step + step / 2 + 1).min(NS_DAY - 1), _ => t };
        let a2 = a.div_euclid(NS_DAY) * NS_DAY + t;
        let Some(s2) = dt_of(a2) else { continue };
        let mut o = RoundingOptions::default(); o.smallest_unit = Some(unit); o.rounding_mode = Some(mode); o.increment = RoundingIncrement::try_new(inc).ok();
        // RoundTime rounds the quantity counted from the start of the enclosing unit (day for day/hour, hour for minute, ...)
        let enclosing: i128 = match unit { Unit::Day | Unit::Hour => NS_DAY, Unit::Minute => 3_600_000_000_000, Unit::Second => 60_000_000_000, Unit::Millisecond => 1_000_000_000, Unit::Microsecond => 1_000_000, _ => 1000 };
        let base = t / enclosing * enclosing;
        let want = a2.div_euclid(NS_DAY) * NS_DAY + base + oracle::round(t - base, step, om);
        let input = format!("datetime_ns={a2} smallestUnit={unit} increment={inc} mode={mode}");
        match catch_unwind(|| s2.round(o)) {
            Ok(Ok(r)) => if ns_of(&r) != want { fails.push(Failure { what: "PlainDateTime::round".into(), input, expected: format!("{want}"), observed: format!("{}", ns_of(&r)) }); },
            Ok(Err(_)) => if dt_of(want).is_some() { fails.push(Failure { what: "PlainDateTime::round rejected".into(), input, expected: format!("{want}"), observed: "Err".into() }); },
            Err(_) => fails.push(Failure { what: "PlainDateTime::round panicked".into(), input, expected: format!("{want}"), observed: "panic".into() }),
        }
        if fails.len() >= 5 { return; }
    }
}
