//! C08 oracle: Duration round / total / compare relative to a plain date (ISO calendar) against "add to the date and
//! re-measure" in exact integer / rational arithmetic (i128).  Reference date arithmetic is oracle.rs + c04::add_oracle.
use crate::{c04, oracle, Failure, Rng};
use temporal_rs::options::{RelativeTo, RoundingIncrement, RoundingMode, RoundingOptions, Unit};
use temporal_rs::primitive::FiniteF64 as F;
use temporal_rs::{Calendar, Duration, PlainDate};
use std::panic::catch_unwind;

const DAY: i128 = 86_400_000_000_000;
type Ymd = (i64, i64, i64);

fn days(d: Ymd) -> i64 { oracle::days_from_civil(d.0, d.1, d.2) }
fn add(d: Ymd, y: i64, m: i64, w: i64, dd: i64) -> Option<Ymd> { c04::add_oracle(d.0, d.1, d.2, y, m, w, dd, false) }
fn cmp_ymd(a: Ymd, b: Ymd) -> i64 { if a < b { -1 } else if a > b { 1 } else { 0 } }

/// DifferenceISODate from the standard: largest count of years, then months, that does not surpass b; then weeks/days
fn diff_date(a: Ymd, b: Ymd, largest: Unit) -> (i64, i64, i64, i64) {
    let sign = -cmp_ymd(a, b);
    if sign == 0 { return (0, 0, 0, 0); }
    let surpasses = |y: i64, m0: i64| { let mi = (a.1 - 1) + m0; let yy = a.0 + y + mi.div_euclid(12); let mm = mi.rem_euclid(12) + 1; let c = cmp_ymd((yy, mm, a.2), b); c == sign };
    let (mut years, mut months) = (0i64, 0i64);
    if matches!(largest, Unit::Year) { let mut c = b.0 - a.0; if c != 0 { c -= sign; } while !surpasses(c, 0) { years = c; c += sign; } }
    if matches!(largest, Unit::Year | Unit::Month) { let mut c = sign; if matches!(largest, Unit::Month) { let mut g = (b.0 - a.0) * 12 + (b.1 - a.1); if g != 0 { g -= sign; } while !surpasses(0, g) { months = g; g += sign; } c = months + sign; let _ = c; } else { while !surpasses(years, c) { months = c; c += sign; } } }
    let inter = { let mi = (a.1 - 1) + months; let yy = a.0 + years + mi.div_euclid(12); let mm = mi.rem_euclid(12) + 1; (yy, mm, a.2.min(oracle::dim(yy, mm))) };
    let mut d = days(b) - days(inter);
    let mut w = 0;
    if matches!(largest, Unit::Week) { w = d / 7; d %= 7; }
    (years, months, w, d)
}

fn rank(u: Unit) -> i64 { match u { Unit::Year => 10, Unit::Month => 9, Unit::Week => 8, Unit::Day => 7, Unit::Hour => 6, Unit::Minute => 5, Unit::Second => 4, Unit::Millisecond => 3, Unit::Microsecond => 2, Unit::Nanosecond => 1, _ => 0 } }
fn unit_ns(u: Unit) -> i128 { match u { Unit::Day => DAY, Unit::Hour => 3_600_000_000_000, Unit::Minute => 60_000_000_000, Unit::Second => 1_000_000_000, Unit::Millisecond => 1_000_000, Unit::Microsecond => 1000, _ => 1 } }
fn sgn(x: i128) -> i128 { if x > 0 { 1 } else if x < 0 { -1 } else { 0 } }

/// exact instant (ns, UTC reading) of reference + date duration at midnight
fn at(r: Ymd, f: (i64, i64, i64, i64)) -> Option<i128> { add(r, f.0, f.1, f.2, f.3).map(|d| days(d) as i128 * DAY) }

/// RoundRelativeDuration relative to a plain date in exact arithmetic. Returns (y, m, w, d, time_ns) or None (RangeError)
fn round_relative(r: Ymd, dur: (i64, i64, i64, i64, i128), largest: Unit, smallest: Unit, inc: i128, mode: oracle::Mode) -> Option<(i64, i64, i64, i64, i128)> {
    // 1. destination
    let day_carry = dur.4.div_euclid(DAY); let tod = dur.4.rem_euclid(DAY);
    let target_date = add(r, dur.0, dur.1, dur.2, dur.3 + day_carry as i64)?;
    let dest = days(target_date) as i128 * DAY + tod;
    let start_ns = days(r) as i128 * DAY;
    // 2. DifferenceISODateTime(r@00:00, target, largest)
    let mut tdiff = tod; // target time - 00:00
    let tsign = sgn(tdiff); let dsign = cmp_ymd(target_date, r) as i128;
    let mut adj = target_date;
    if tsign == -dsign && tsign != 0 { adj = oracle::civil_from_days(days(target_date) + tsign as i64); tdiff -= tsign * DAY; }
    let dl = if rank(largest) >= 7 { largest } else { Unit::Day };
    let (mut y, mut m, mut w, mut d) = diff_date(r, adj, dl);
    if rank(largest) < 7 { tdiff += d as i128 * DAY; d = 0; }
    let sign = { let s = sgn(y as i128).max(-1).min(1); let all = [y as i128, m as i128, w as i128, d as i128, tdiff]; let p = all.iter().find(|v| **v != 0).copied().unwrap_or(0); let _ = s; if p < 0 { -1i128 } else { 1 } };
    if rank(smallest) == 1 && inc == 1 { return Some((y, m, w, d, tdiff)); }
    let mut nudged;
    let mut expanded;
    if rank(smallest) >= 8 {
        // NudgeToCalendarUnit
        let trunc_to = |v: i128| v / inc * inc;
        let (r1, s_dur, e_dur): (i128, (i64, i64, i64, i64), (i64, i64, i64, i64));
        match smallest {
            Unit::Year => { r1 = trunc_to(y as i128); let r2 = r1 + inc * sign; s_dur = (r1 as i64, 0, 0, 0); e_dur = (r2 as i64, 0, 0, 0); }
            Unit::Month => { r1 = trunc_to(m as i128); let r2 = r1 + inc * sign; s_dur = (y, r1 as i64, 0, 0); e_dur = (y, r2 as i64, 0, 0); }
            _ => {
                let ws = add(r, y, m, 0, 0)?; let we = oracle::civil_from_days(days(ws) + d);
                let uw = diff_date(ws, we, Unit::Week).2;
                r1 = trunc_to(w as i128 + uw as i128); let r2 = r1 + inc * sign; s_dur = (y, m, r1 as i64, 0); e_dur = (y, m, r2 as i64, 0);
            }
        }
        let (s_ns, e_ns) = (at(r, s_dur)?, at(r, e_dur)?);
        if s_ns == e_ns { return None; }
        let num = (dest - s_ns).abs(); let den = (e_ns - s_ns).abs();
        // destination beyond the end of the step (month-end clamping plus a time of day): the standard's own assertion
        // r1 <= total <= r2 does not hold there; not decided by this oracle
        if num > den || (dest - s_ns).signum() == -(e_ns - s_ns).signum() { return None; }
        // pick r1 (false) or r2 (true) by the unsigned rounding mode of `mode` for this sign
        let up = if num == 0 { false } else if (dest - s_ns).signum() != (e_ns - s_ns).signum() { false } else if num >= den { true } else {
            let positive = sign > 0;
            match mode {
                oracle::Mode::Ceil => positive, oracle::Mode::Floor => !positive, oracle::Mode::Expand => true, oracle::Mode::Trunc => false,
                _ => if 2 * num < den { false } else if 2 * num > den { true } else { match mode {
                    oracle::Mode::HalfCeil => positive, oracle::Mode::HalfFloor => !positive, oracle::Mode::HalfExpand => true, oracle::Mode::HalfTrunc => false,
                    _ => (r1.abs() / inc) % 2 == 1 } } }
        };
        let res = if up { e_dur } else { s_dur };
        y = res.0; m = res.1; w = res.2; d = res.3; tdiff = 0;
        nudged = if up { e_ns } else { s_ns }; expanded = up;
    } else {
        // NudgeToDayOrTime
        let n = tdiff + d as i128 * DAY;
        let rn = oracle::round(n, unit_ns(smallest) * inc, mode);
        let (nd, rd) = (n / DAY, rn / DAY);
        expanded = sgn(rd - nd) == sgn(n);
        nudged = dest + (rn - n);
        if rank(largest) >= 7 { d = rd as i64; tdiff = rn % DAY; } else { d = 0; tdiff = rn; }
    }
    // BubbleRelativeDuration
    if expanded && !matches!(smallest, Unit::Week) {
        let su = if rank(smallest) >= 7 { rank(smallest) } else { 7 };
        let lu = rank(largest);
        let mut k = su + 1;
        while k <= lu && k <= 10 {
            if k == 8 && lu != 8 { k += 1; continue; }
            let e = match k { 10 => (y + sign as i64, 0, 0, 0), 9 => (y, m + sign as i64, 0, 0), 8 => (y, m, w + sign as i64, 0), _ => (y, m, w, d + sign as i64) };
            let e_ns = at(r, e)?;
            if sgn(nudged - e_ns) != -sign { y = e.0; m = e.1; w = e.2; d = e.3; } else { break; }
            k += 1;
        }
    }
    let _ = (&mut nudged, &mut expanded, start_ns);
    Some((y, m, w, d, tdiff))
}

fn mk(y: i64, m: i64, w: i64, d: i64, t: i128) -> Option<Duration> {
    let f = |v: i128| F::try_from(v as f64).ok();
    let (h, rem) = (t / 3_600_000_000_000, t % 3_600_000_000_000);
    let (mi, rem) = (rem / 60_000_000_000, rem % 60_000_000_000);
    let (s, rem) = (rem / 1_000_000_000, rem % 1_000_000_000);
    Duration::new(f(y as i128)?, f(m as i128)?, f(w as i128)?, f(d as i128)?, f(h)?, f(mi)?, f(s)?, f(rem / 1_000_000)?, f(rem / 1000 % 1000)?, f(rem % 1000)?).ok()
}
fn fields(d: &Duration) -> (i64, i64, i64, i64, i128) {
    let g = |x: F| x.as_inner() as i128;
    (g(d.years()) as i64, g(d.months()) as i64, g(d.weeks()) as i64, g(d.days()) as i64,
     ((((g(d.hours()) * 60 + g(d.minutes())) * 60 + g(d.seconds())) * 1000 + g(d.milliseconds())) * 1000 + g(d.microseconds())) * 1000 + g(d.nanoseconds()))
}

pub fn search(rng: &mut Rng, budget: u64, fails: &mut Vec<Failure>) {
    let units = [Unit::Year, Unit::Month, Unit::Week, Unit::Day, Unit::Hour, Unit::Minute];
    let modes = [(RoundingMode::Ceil, oracle::Mode::Ceil), (RoundingMode::Floor, oracle::Mode::Floor), (RoundingMode::Expand, oracle::Mode::Expand), (RoundingMode::Trunc, oracle::Mode::Trunc), (RoundingMode::HalfCeil, oracle::Mode::HalfCeil),
        (RoundingMode::HalfFloor, oracle::Mode::HalfFloor), (RoundingMode::HalfExpand, oracle::Mode::HalfExpand), (RoundingMode::HalfTrunc, oracle::Mode::HalfTrunc), (RoundingMode::HalfEven, oracle::Mode::HalfEven)];
    let mut stats = (0u64, 0u64, 0u64);
    for k in 0..(budget / 20) {
        let r = oracle::civil_from_days(rng.range(-200_000, 400_000) as i64);
        let r = if k % 3 == 0 { (r.0, r.1, oracle::dim(r.0, r.1)) } else { r };
        let sg = if rng.next() % 2 == 0 { 1i64 } else { -1 };
        let dur = (sg * (rng.range(0, 3) as i64) * ((rng.next() % 2) as i64), sg * rng.range(0, 14) as i64 * ((rng.next() % 2) as i64), sg * rng.range(0, 6) as i64 * ((rng.next() % 3 == 0) as i64),
            sg * rng.range(0, 40) as i64 * ((rng.next() % 2) as i64), sg as i128 * rng.range(0, 30 * 3_600_000_000_000) * ((rng.next() % 2) as i128));
        let Some(d) = mk(dur.0, dur.1, dur.2, dur.3, dur.4) else { continue };
        let Ok(rel) = PlainDate::try_new(r.0 as i32, r.1 as u8, r.2 as u8, Calendar::default()) else { continue };
        // compare: order of the destinations
        {
            let other = (dur.0, dur.1, 0i64, dur.3 + rng.range(-3, 3) as i64 * sg.abs(), dur.4);
            if (other.3 >= 0) == (sg >= 0) || other.3 == 0 { if let Some(o) = mk(other.0, other.1, other.2, other.3, other.4) {
                let dest = |f: (i64, i64, i64, i64, i128)| add(r, f.0, f.1, f.2, 0).map(|x| (days(x) as i128 + f.3 as i128) * DAY + f.4);
                if let (Some(a), Some(b)) = (dest(dur), dest(other)) {
                    if let Ok(Ok(c)) = catch_unwind(|| d.compare(&o, Some(RelativeTo::PlainDate(rel.clone())))) {
                        if c != a.cmp(&b) { fails.push(Failure { what: "Duration::compare relative to a date".into(), input: format!("relativeTo={r:?} {dur:?} vs {other:?}"), expected: format!("{:?}", a.cmp(&b)), observed: format!("{c:?}") }); }
                    }
                }
            } }
        }
        // round
        let li = (rng.next() % 6) as usize; let si = li + (rng.next() % (6 - li as u64)) as usize;
        let (largest, smallest) = (units[li], units[si]);
        let inc: u32 = match smallest { Unit::Hour => [1, 2, 3, 4, 6][(rng.next() % 5) as usize], Unit::Minute => [1, 5, 15, 30][(rng.next() % 4) as usize], Unit::Day | Unit::Week | Unit::Month | Unit::Year => [1, 1, 2, 3][(rng.next() % 4) as usize], _ => 1 };
        if inc > 1 && si != li && rank(smallest) >= 7 && rank(largest) > rank(smallest) { /* allowed */ }
        let (mode, om) = modes[(rng.next() % 9) as usize];
        let want = round_relative(r, dur, largest, smallest, inc as i128, om);
        let mut o = RoundingOptions::default(); o.largest_unit = Some(largest); o.smallest_unit = Some(smallest); o.rounding_mode = Some(mode); o.increment = RoundingIncrement::try_new(inc).ok();
        let input = format!("relativeTo={r:?} duration={dur:?} largest={largest} smallest={smallest} increment={inc} mode={mode}");
        match catch_unwind(|| d.round(o, Some(RelativeTo::PlainDate(rel.clone())))) {
            Err(_) => fails.push(Failure { what: "Duration::round (relativeTo date) panicked".into(), input, expected: format!("{want:?}"), observed: "panic".into() }),
            Ok(Ok(got)) => { stats.0 += 1; let g = fields(&got); if let Some(w) = want { stats.1 += 1; if g != w { fails.push(Failure { what: "Duration::round relative to a date != add-then-remeasure".into(), input, expected: format!("{w:?}"), observed: format!("{g:?}") }); } } }
            Ok(Err(_)) => { stats.2 += 1; }
        }
        if fails.len() >= 5 { return; }
    }
    if std::env::var("VERIF_REPLAY_STATS").is_ok() { eprintln!("c08 stats: ok={} compared={} err={}", stats.0, stats.1, stats.2); }
}
