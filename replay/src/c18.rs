use crate::{Failure, Rng};
use core::str::FromStr;
use temporal_rs::options::{ArithmeticOverflow, DisplayCalendar};
use temporal_rs::partial::PartialDate;
use temporal_rs::{Calendar, PlainDate, PlainMonthDay, PlainYearMonth};
use std::panic::catch_unwind;

pub fn search(rng: &mut Rng, budget: u64, fails: &mut Vec<Failure>) {
    for k in 0..(budget / 20).max(50) {
        let y = if k % 3 == 0 { rng.range(-271_000, 275_000) } else { rng.range(1, 9998) } as i32;
        let m = rng.range(1, 12) as u8;
        let d = rng.range(1, 28) as u8;
        // year-month: string, date and field record (with and without a day field) must agree
        let text = if (0..=9999).contains(&y) { format!("{:04}-{:02}", y, m) } else { format!("{}{:06}-{:02}", if y < 0 { '-' } else { '+' }, y.abs(), m) };
        let from_str = catch_unwind(|| PlainYearMonth::from_str(&text));
        let mut p = PartialDate::default(); p.year = Some(y); p.month = Some(m);
        let from_fields = catch_unwind(|| PlainYearMonth::from_partial(p.clone(), ArithmeticOverflow::Reject));
        let mut pd = p.clone(); pd.day = Some(d);
        let from_fields_day = catch_unwind(|| PlainYearMonth::from_partial(pd.clone(), ArithmeticOverflow::Reject));
        let from_date = catch_unwind(|| PlainDate::try_new(y, m, d, Calendar::default()).and_then(|x| x.to_plain_year_month()));
        let routes = [("from_str", from_str), ("from_partial", from_fields), ("from_partial(with day)", from_fields_day), ("PlainDate::to_plain_year_month", from_date)];
        let mut base: Option<(String, PlainYearMonth)> = None;
        for (name, r) in routes {
            match r {
                Ok(Ok(v)) => {
                    if let Some((bn, b)) = &base {
                        if *b != v || b.to_ixdtf_string(DisplayCalendar::Always) != v.to_ixdtf_string(DisplayCalendar::Always) {
                            fails.push(Failure { what: "year-month routes disagree".into(), input: format!("{y}-{m} (day field {d})"), expected: format!("{bn}: {}", b.to_ixdtf_string(DisplayCalendar::Always)), observed: format!("{name}: {}", v.to_ixdtf_string(DisplayCalendar::Always)) });
                        }
                    } else { base = Some((name.to_string(), v)); }
                }
                Ok(Err(_)) => {}
                Err(_) => fails.push(Failure { what: "year-month construction panicked".into(), input: format!("{y}-{m} via {name}"), expected: "value or error".into(), observed: "panic".into() }),
            }
        }
        // month-day: reference year 1972 on every route
        let mdtext = format!("{:02}-{:02}", m, d);
        let a = catch_unwind(|| PlainMonthDay::from_str(&mdtext));
        let b = catch_unwind(|| PlainMonthDay::new_with_overflow(m, d, Calendar::default(), ArithmeticOverflow::Reject, None));
        if let (Ok(Ok(a)), Ok(Ok(b))) = (a, b) {
            if a != b || a.iso_year() != 1972 { fails.push(Failure { what: "month-day routes disagree".into(), input: mdtext, expected: "reference year 1972".into(), observed: format!("{} vs {}", a.iso_year(), b.iso_year()) }); }
        }
        if fails.len() >= 5 { return; }
    }
    // February 29 month-day
    match catch_unwind(|| PlainMonthDay::new_with_overflow(2, 29, Calendar::default(), ArithmeticOverflow::Reject, None)) {
        Ok(Ok(_)) => {}
        other => fails.push(Failure { what: "month-day 02-29".into(), input: "02-29".into(), expected: "Ok".into(), observed: format!("{:?}", other.map(|x| x.is_ok())) }),
    }
}
