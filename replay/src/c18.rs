use crate::{Failure, Rng};
use core::str::FromStr;
use temporal_rs::options::{ArithmeticOverflow, DisplayCalendar};
use temporal_rs::partial::PartialDate;
use temporal_rs::{Calendar, PlainDate, PlainMonthDay, PlainYearMonth};
use std::panic::catch_unwind;

pub fn search(rng: &mut Rng, budget: u64, fails: &mut Vec<Failure>) {
    for k in 0..(budget / 20).max(50) {
        let y = if k % 3 == 0 { rng.range(-271_000, 275_000) } else { rng.range(1, 9998) } as i32;
        let m = rng.range(1, 12) as u8;
        let d = rng.range(1, 28) as u8;
        // year-month: string, date and field record (with and without a day field) must agree
        let text = if (0..=9999).contains(&y) { format!("{:04}-{:02}", y, m) } else { format!("{}{:06}-{:02}", if y < 0 { '-' } else { '+' }, y.abs(), m) };
        let from_str = catch_unwind(|| PlainYearMonth::from_str(&text));
        let mut p = PartialDate::default(); p.year = Some(y); p.month = Some(m);
        let from_fields = catch_unwind(|| PlainYearMonth::from_partial(p.clone(), ArithmeticOverflow::Reject));
        let mut pd = p.clone(); pd.day = Some(d);
        let from_fields_day = catch_unwind(|| PlainYearMonth::from_partial(pd.clone(), ArithmeticOverflow::Reject));
        let from_date = catch_unwind(|| PlainDate::try_new(y, m, d, Calendar::default()).and_then(|x| x.to_plain_year_month()));
        let routes = [("from_str", from_str), ("from_partial", from_fields), ("from_partial(with day)", from_fields_day), ("PlainDate::to_plain_year_month", from_date)];
        let mut base: Option<(String, PlainYearMonth)> = None;
        for (name, r) in routes {
            match r {
                Ok(Ok(v)) => {
                    if let Some((bn, b)) = &base {
                        if *b != v || b.to_ixdtf_string(DisplayCalendar::Always) != v.to_ixdtf_string(DisplayCalendar::Always) {
                            fails.push(Failure { what: "year-month routes disagree".into(), input: format!("{y}-{m} (day field {d})"), expected: format!("{bn}: {}", b.to_ixdtf_string(DisplayCalendar::Always)), observed: format!("{name}: {}", v.to_ixdtf_string(DisplayCalendar::Always)) });
                        }
                    } else { base = Some((name.to_string(), v)); }
                }
                Ok(Err(_)) => {}
                Err(_) => fails.push(Failure { what: "year-month construction panicked".into(), input: format!("{y}-{m} via {name}"), expected: "value or error".into(), observed: "panic".into() }),
            }
        }
        // month-day: reference year 1972 on every route
        let mdtext = format!("{:02}-{:02}", m, d);
        let a = catch_unwind(|| PlainMonthDay::from_str(&mdtext));
        let b = catch_unwind(|| PlainMonthDay::new_with_overflow(m, d, Calendar::default(), ArithmeticOverflow::Reject, None));
        if let (Ok(Ok(a)), Ok(Ok(b))) = (a, b) {
            if a != b || a.iso_year() != 1972 { fails.push(Failure { what: "month-day routes disagree".into(), input: mdtext, expected: "reference year 1972".into(), observed: format!("{} vs {}", a.iso_year(), b.iso_year()) }); }
        }
        if fails.len() >= 5 { return; }
    }
    // year-month arithmetic: whole years and months from the first of the month; week and day units are refused
    for _ in 0..(budget / 100).max(40) {
        let (y, m) = (rng.range(-200_000, 200_000) as i32, rng.range(1, 12) as u8);
        // the hidden reference day (only the low-level constructor can choose one) must not influence the arithmetic
        let refday = match rng.next() % 3 { 0 => None, 1 => Some(rng.range(28, 31) as u8), _ => Some(rng.range(1, 28) as u8) };
        crate::c11::ymmd_canonical(y as i64, m, refday.unwrap_or(1).min(28), fails);
        if fails.len() >= 5 { return; }
        let Ok(ym) = PlainYearMonth::new_with_overflow(y, m, refday, Calendar::default(), ArithmeticOverflow::Constrain) else { continue };
        let ov = if rng.next() % 2 == 0 { ArithmeticOverflow::Constrain } else { ArithmeticOverflow::Reject };
        let (dy, dm) = (rng.range(-50, 50), rng.range(-40, 40));
        let same_sign = (dy >= 0 && dm >= 0) || (dy <= 0 && dm <= 0);
        if !same_sign { continue; }
        let f = |v: i128| temporal_rs::primitive::FiniteF64::try_from(v as f64).unwrap();
        let z = temporal_rs::primitive::FiniteF64::default();
        let Ok(d) = temporal_rs::Duration::new(f(dy), f(dm), z, z, z, z, z, z, z, z) else { continue };
        let total = (y as i128) * 12 + (m as i128 - 1);
        for sub in [false, true] {
            let t = if sub { total - (dy * 12 + dm) } else { total + (dy * 12 + dm) };
            let (wy, wm) = (t.div_euclid(12), t.rem_euclid(12) + 1);
            let input = format!("PlainYearMonth({y}-{m}, reference day {refday:?}).{}(P{dy}Y{dm}M, {ov:?})", if sub { "subtract" } else { "add" });
            match catch_unwind(|| if sub { ym.subtract(&d, ov) } else { ym.add(&d, ov) }) {
                Ok(Ok(r)) => if (r.iso_year() as i128, r.iso_month() as i128) != (wy, wm) { fails.push(Failure { what: "PlainYearMonth add/subtract".into(), input, expected: format!("{wy}-{wm}"), observed: format!("{}-{}", r.iso_year(), r.iso_month()) }) },
                Ok(Err(_)) => fails.push(Failure { what: "PlainYearMonth add/subtract refused whole years and months inside the limits".into(), input, expected: format!("{wy}-{wm}"), observed: "Err".into() }),
                Err(_) => fails.push(Failure { what: "PlainYearMonth add/subtract panicked".into(), input, expected: "value or error".into(), observed: "panic".into() }),
            }
        }
        for (w, dd) in [(1i128, 0i128), (0, 1), (0, -31), (-1, 0)] {
            let Ok(dw) = temporal_rs::Duration::new(z, z, f(w), f(dd), z, z, z, z, z, z) else { continue };
            for sub in [false, true] {
                let input = format!("PlainYearMonth({y}-{m}).{}(P{w}W{dd}D)", if sub { "subtract" } else { "add" });
                if let Ok(Ok(r)) = catch_unwind(|| if sub { ym.subtract(&dw, ArithmeticOverflow::Constrain) } else { ym.add(&dw, ArithmeticOverflow::Constrain) }) {
                    fails.push(Failure { what: "PlainYearMonth add/subtract accepted week / day units".into(), input, expected: "RangeError".into(), observed: format!("{}-{}", r.iso_year(), r.iso_month()) });
                }
            }
        }
        if fails.len() >= 5 { return; }
    }
    // with(): supplied fields win, the rest come from the receiver; constrain clamps, reject refuses (C17)
    for _ in 0..(budget / 100).max(40) {
        let (y, m, d) = (rng.range(1, 9000) as i32, rng.range(1, 12) as u8, rng.range(1, 28) as u8);
        let Ok(base) = PlainDate::try_new(y, m, d, Calendar::default()) else { continue };
        let pm = if rng.next() % 2 == 0 { Some(rng.range(1, 20) as u8) } else { None };
        let pdv = if rng.next() % 2 == 0 { Some(rng.range(1, 40) as u8) } else { None };
        if pm.is_none() && pdv.is_none() { continue; }
        let mut p = PartialDate::default(); p.month = pm; p.day = pdv;
        let dim = |yy: i32, mm: u8| -> u8 { match mm { 2 => if crate::oracle::is_leap(yy as i64) { 29 } else { 28 }, 4 | 6 | 9 | 11 => 30, _ => 31 } };
        for ov in [None, Some(ArithmeticOverflow::Constrain), Some(ArithmeticOverflow::Reject)] {
            let (wm, wd) = (pm.unwrap_or(m), pdv.unwrap_or(d));
            let reject = matches!(ov, Some(ArithmeticOverflow::Reject));
            let want = if reject { if wm <= 12 && wd <= dim(y, wm) { Some((wm, wd)) } else { None } } else { let cm = wm.min(12); Some((cm, wd.min(dim(y, cm)))) };
            let input = format!("PlainDate({y}-{m}-{d}).with(month={pm:?}, day={pdv:?}, overflow={ov:?})");
            let pc = p.clone();
            match catch_unwind(std::panic::AssertUnwindSafe(|| base.with(pc, ov))) {
                Ok(Ok(r)) => match want { Some((em, ed)) => if (r.iso_year(), r.iso_month(), r.iso_day()) != (y, em, ed) { fails.push(Failure { what: "PlainDate::with".into(), input, expected: format!("{y}-{em}-{ed}"), observed: format!("{}-{}-{}", r.iso_year(), r.iso_month(), r.iso_day()) }) },
                    None => fails.push(Failure { what: "PlainDate::with accepted out-of-range fields under reject".into(), input, expected: "RangeError".into(), observed: format!("{}-{}-{}", r.iso_year(), r.iso_month(), r.iso_day()) }) },
                Ok(Err(_)) => if let Some((em, ed)) = want { fails.push(Failure { what: "PlainDate::with refused fields it must constrain or accept".into(), input, expected: format!("{y}-{em}-{ed}"), observed: "Err".into() }) },
                Err(_) => fails.push(Failure { what: "PlainDate::with panicked".into(), input, expected: "value or error".into(), observed: "panic".into() }),
            }
        }
        if fails.len() >= 5 { return; }
    }
    // February 29 month-day
    match catch_unwind(|| PlainMonthDay::new_with_overflow(2, 29, Calendar::default(), ArithmeticOverflow::Reject, None)) {
        Ok(Ok(_)) => {}
        other => fails.push(Failure { what: "month-day 02-29".into(), input: "02-29".into(), expected: "Ok".into(), observed: format!("{:?}", other.map(|x| x.is_ok())) }),
    }
}
