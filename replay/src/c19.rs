use crate::{Failure, Rng};
use temporal_rs::{Calendar, TimeZone, ZonedDateTime};
use temporal_rs::options::{DifferenceSettings, Disambiguation, RoundingMode, Unit, RoundingIncrement};
use temporal_rs::PlainDateTime;
use temporal_rs::tzdb::FsTzdbProvider;
use std::panic::catch_unwind;

/// the convenience accessors must return what the provider-taking core accessors return (fields all distinct)
pub fn search(rng: &mut Rng, budget: u64, fails: &mut Vec<Failure>) {
    let provider = FsTzdbProvider::default();
    // day-level convenience operations on days whose first instant is not 00:00 (gap at / across midnight), on ordinary days
    // and on days with a repeated hour: start_of_day, with_plain_time, to_plain_*, add / subtract, string form, transitions
    for (ns, tzs) in [(-1_601_740_800_000_000_000i128, "America/Toronto"), (1_541_340_000_000_000_000, "America/Sao_Paulo"), (1_718_469_000_000_000_000, "America/New_York"),
        (1_636_263_000_000_000_000, "America/New_York"), (1_615_710_600_000_000_000, "America/New_York"), (-1_601_753_400_000_000_000, "America/Toronto"), (0, "+05:30")] {
        let Ok(tz) = TimeZone::try_from_str(tzs) else { continue };
        for dns in [0i128, -43_200_000_000_000, 43_200_000_000_000, 86_400_000_000_000] {
            let ns = ns + dns;
            let Ok(z) = ZonedDateTime::try_new(ns, Calendar::default(), tz.clone()) else { continue };
            macro_rules! cmp { ($name:literal, $a:expr, $b:expr) => {
                match (catch_unwind(std::panic::AssertUnwindSafe(|| $a)), catch_unwind(std::panic::AssertUnwindSafe(|| $b))) {
                    (Ok(Ok(a)), Ok(Ok(b))) => if a != b { fails.push(Failure { what: format!("ZonedDateTime::{} != {}_with_provider", $name, $name), input: format!("epoch_ns={ns} tz={tzs}"), expected: format!("{:?}", b), observed: format!("{:?}", a) }); },
                    (Ok(Err(_)), Ok(Err(_))) => {}
                    (Err(_), Err(_)) => {}
                    _ => fails.push(Failure { what: format!("ZonedDateTime::{} differs in outcome", $name), input: format!("epoch_ns={ns} tz={tzs}"), expected: "same outcome".into(), observed: "different".into() }),
                } } }
            let showz = |r: temporal_rs::TemporalResult<ZonedDateTime>| r.map(|z| z.epoch_nanoseconds().as_i128());
            cmp!("start_of_day", showz(z.start_of_day()), showz(z.start_of_day_with_provider(&provider)));
            for (h, mi) in [(0u8, 0u8), (0, 15), (1, 30), (2, 30), (12, 0), (23, 45)] {
                let Ok(t) = temporal_rs::PlainTime::try_new(h, mi, 0, 0, 0, 0) else { continue };
                cmp!("with_plain_time", showz(z.with_plain_time(t)), showz(z.with_plain_time_and_provider(t, &provider)));
            }
            cmp!("to_plain_date", z.to_plain_date().map(|d| (d.iso_year(), d.iso_month(), d.iso_day())), z.to_plain_date_with_provider(&provider).map(|d| (d.iso_year(), d.iso_month(), d.iso_day())));
            cmp!("to_plain_time", z.to_plain_time().map(|t| (t.hour(), t.minute(), t.second(), t.nanosecond())), z.to_plain_time_with_provider(&provider).map(|t| (t.hour(), t.minute(), t.second(), t.nanosecond())));
            cmp!("to_plain_datetime", z.to_plain_datetime().map(|t| (t.iso_year(), t.iso_month(), t.iso_day(), t.hour(), t.minute())), z.to_plain_datetime_with_provider(&provider).map(|t| (t.iso_year(), t.iso_month(), t.iso_day(), t.hour(), t.minute())));
            for (dd, hh) in [(1i64, 0i64), (-1, 0), (0, 25), (1, 1), (0, -3), (31, 0), (-1, -1)] {
                let Ok(du) = ({ use temporal_rs::primitive::FiniteF64 as F; let z0 = F::default(); temporal_rs::Duration::new(z0, z0, z0, F::try_from(dd as f64).unwrap(), F::try_from(hh as f64).unwrap(), z0, z0, z0, z0, z0) }) else { continue };
                cmp!("add", showz(z.add(&du, None)), showz(z.add_with_provider(&du, None, &provider)));
                cmp!("subtract", showz(z.subtract(&du, None)), showz(z.subtract_with_provider(&du, None, &provider)));
            }
            cmp!("hours_in_day", z.hours_in_day(), z.hours_in_day_with_provider(&provider));
            // the overflow option reaches the core unchanged (month arithmetic from a 31st, constrain / reject / default)
            for (mo, ov) in [(1i64, None), (1, Some(temporal_rs::options::ArithmeticOverflow::Reject)), (1, Some(temporal_rs::options::ArithmeticOverflow::Constrain)), (-1, Some(temporal_rs::options::ArithmeticOverflow::Reject)), (13, Some(temporal_rs::options::ArithmeticOverflow::Reject))] {
                use temporal_rs::primitive::FiniteF64 as F; let z0 = F::default();
                let Ok(du) = temporal_rs::Duration::new(z0, F::try_from(mo as f64).unwrap(), z0, z0, z0, z0, z0, z0, z0, z0) else { continue };
                for base in [1_612_094_400_000_000_000i128 /* 2021-01-31T12:00Z */, 1_617_192_000_000_000_000 /* 2021-03-31T12:00Z */, ns] {
                    let Ok(zb) = ZonedDateTime::try_new(base, Calendar::default(), tz.clone()) else { continue };
                    cmp!("add(overflow)", showz(zb.add(&du, ov)), showz(zb.add_with_provider(&du, ov, &provider)));
                    cmp!("subtract(overflow)", showz(zb.subtract(&du, ov)), showz(zb.subtract_with_provider(&du, ov, &provider)));
                }
            }
            if fails.len() >= 5 { return; }
        }
    }
    // every calendar getter is wired to its own core accessor (around New Year the week-year differs from the year)
    for (ns, tzs) in [(1_609_502_400_000_000_000i128, "UTC"), (1_735_646_400_000_000_000, "UTC"), (1_582_977_600_000_000_000, "America/New_York"), (1_701_308_952_000_000_000, "Asia/Tokyo")] {
        let Ok(tz) = TimeZone::try_from_str(tzs) else { continue };
        let Ok(z) = ZonedDateTime::try_new(ns, Calendar::default(), tz) else { continue };
        macro_rules! cmp { ($name:literal, $a:expr, $b:expr) => {
            match (catch_unwind(std::panic::AssertUnwindSafe(|| $a)), catch_unwind(std::panic::AssertUnwindSafe(|| $b))) {
                (Ok(Ok(a)), Ok(Ok(b))) => if a != b { fails.push(Failure { what: format!("ZonedDateTime::{} != {}_with_provider", $name, $name), input: format!("epoch_ns={ns} tz={tzs}"), expected: format!("{:?}", b), observed: format!("{:?}", a) }); },
                (Ok(Err(_)), Ok(Err(_))) => {}
                (Err(_), Err(_)) => {}
                _ => fails.push(Failure { what: format!("ZonedDateTime::{} differs in outcome", $name), input: format!("epoch_ns={ns} tz={tzs}"), expected: "same outcome".into(), observed: "different".into() }),
            } } }
        cmp!("week_of_year", z.week_of_year(), z.week_of_year_with_provider(&provider));
        cmp!("year_of_week", z.year_of_week(), z.year_of_week_with_provider(&provider));
        cmp!("days_in_week", z.days_in_week(), z.days_in_week_with_provider(&provider));
        cmp!("days_in_year", z.days_in_year(), z.days_in_year_with_provider(&provider));
        cmp!("months_in_year", z.months_in_year(), z.months_in_year_with_provider(&provider));
        cmp!("in_leap_year", z.in_leap_year(), z.in_leap_year_with_provider(&provider));
        cmp!("month_code", z.month_code().map(|m| m.as_str().to_string()), z.month_code_with_provider(&provider).map(|m| m.as_str().to_string()));
        cmp!("era", z.era().map(|e| e.map(|x| x.to_string())), z.era_with_provider(&provider).map(|e| e.map(|x| x.to_string())));
        cmp!("era_year", z.era_year(), z.era_year_with_provider(&provider));
        if fails.len() >= 5 { return; }
    }
    // strings through the convenience layer: every disambiguation and offset option reaches the core unchanged
    for text in ["2020-03-08T02:30[America/Los_Angeles]", "2020-11-01T01:30[America/Los_Angeles]", "2021-06-01T12:00[America/New_York]", "2020-11-01T01:30-08:00[America/Los_Angeles]", "2020-11-01T01:30-05:00[America/Los_Angeles]", "2020-03-08T02:30Z[America/Los_Angeles]"] {
        for dis in [Disambiguation::Compatible, Disambiguation::Earlier, Disambiguation::Later, Disambiguation::Reject] {
            for off in [temporal_rs::options::OffsetDisambiguation::Use, temporal_rs::options::OffsetDisambiguation::Ignore, temporal_rs::options::OffsetDisambiguation::Prefer, temporal_rs::options::OffsetDisambiguation::Reject] {
                let a = catch_unwind(|| ZonedDateTime::from_str(text, dis, off).map(|z| z.epoch_nanoseconds().as_i128()));
                let b = catch_unwind(std::panic::AssertUnwindSafe(|| ZonedDateTime::from_str_with_provider(text, dis, off, &provider).map(|z| z.epoch_nanoseconds().as_i128())));
                let same = match (&a, &b) { (Ok(Ok(x)), Ok(Ok(y))) => x == y, (Ok(Err(_)), Ok(Err(_))) => true, (Err(_), Err(_)) => true, _ => false };
                if !same { fails.push(Failure { what: "ZonedDateTime::from_str != from_str_with_provider".into(), input: format!("{text} disambiguation={dis:?} offset={off:?}"), expected: format!("{:?}", b.map(|r| r.ok())), observed: format!("{:?}", a.map(|r| r.ok())) }); }
                if fails.len() >= 5 { return; }
            }
        }
    }
    // Display = the string form with every option auto (non-ISO calendars print their annotation)
    for cal in ["iso8601", "japanese", "gregory", "hebrew"] {
        let (Ok(c), Ok(tz)) = (cal.parse::<Calendar>(), TimeZone::try_from_str("UTC")) else { continue };
        let Ok(z) = ZonedDateTime::try_new(1_701_308_952_000_000_000, c, tz) else { continue };
        let a = catch_unwind(|| format!("{z}"));
        let b = catch_unwind(std::panic::AssertUnwindSafe(|| z.to_string_with_provider(&provider)));
        if let (Ok(a), Ok(Ok(b))) = (a, b) { if a != b { fails.push(Failure { what: "Display for ZonedDateTime != to_string_with_provider".into(), input: format!("calendar={cal}"), expected: b, observed: a }); } }
    }
    for k in 0..(budget / 200).max(20) {
        let ns = if k == 0 { 1_701_308_952_123_456_789i128 } else { rng.range(-4_000_000_000_000_000_000, 4_000_000_000_000_000_000) };
        for tzs in ["UTC", "+05:30", "America/New_York"] {
            let Ok(tz) = TimeZone::try_from_str(tzs) else { continue };
            let Ok(z) = ZonedDateTime::try_new(ns, Calendar::default(), tz) else { continue };
            macro_rules! cmp { ($name:literal, $a:expr, $b:expr) => {
                match (catch_unwind(std::panic::AssertUnwindSafe(|| $a)), catch_unwind(std::panic::AssertUnwindSafe(|| $b))) {
                    (Ok(Ok(a)), Ok(Ok(b))) => if a != b { fails.push(Failure { what: format!("ZonedDateTime::{} != {}_with_provider", $name, $name), input: format!("epoch_ns={ns} tz={tzs}"), expected: format!("{:?}", b), observed: format!("{:?}", a) }); },
                    (Ok(Err(_)), Ok(Err(_))) => {}
                    _ => fails.push(Failure { what: format!("ZonedDateTime::{} differs in outcome", $name), input: format!("epoch_ns={ns} tz={tzs}"), expected: "same outcome".into(), observed: "different".into() }),
                } } }
            cmp!("year", z.year(), z.year_with_provider(&provider));
            cmp!("month", z.month(), z.month_with_provider(&provider));
            cmp!("day", z.day(), z.day_with_provider(&provider));
            cmp!("hour", z.hour(), z.hour_with_provider(&provider));
            cmp!("minute", z.minute(), z.minute_with_provider(&provider));
            cmp!("second", z.second(), z.second_with_provider(&provider));
            cmp!("millisecond", z.millisecond(), z.millisecond_with_provider(&provider));
            cmp!("microsecond", z.microsecond(), z.microsecond_with_provider(&provider));
            cmp!("nanosecond", z.nanosecond(), z.nanosecond_with_provider(&provider));
            cmp!("offset_nanoseconds", z.offset_nanoseconds(), z.offset_nanoseconds_with_provider(&provider));
            cmp!("day_of_week", z.day_of_week(), z.day_of_week_with_provider(&provider));
            cmp!("day_of_year", z.day_of_year(), z.day_of_year_with_provider(&provider));
            cmp!("days_in_month", z.days_in_month(), z.days_in_month_with_provider(&provider));
            cmp!("hours_in_day", z.hours_in_day(), z.hours_in_day_with_provider(&provider));
            // wall-clock -> zoned through the convenience layer: every disambiguation, ordinary / skipped / repeated times
            if tzs == "America/New_York" {
                for (y, mo, d, h, mi) in [(2021, 11, 7, 1, 30), (2021, 3, 14, 2, 30), (2021, 6, 1, 12, 0), (2010, 11, 7, 1, 0), (2010, 3, 14, 2, 59)] {
                    if let Ok(pdt) = PlainDateTime::try_new(y, mo, d, h, mi, 0, 0, 0, 0, Calendar::default()) {
                        for dis in [Disambiguation::Compatible, Disambiguation::Earlier, Disambiguation::Later, Disambiguation::Reject] {
                            let show = |r: temporal_rs::TemporalResult<ZonedDateTime>| r.map(|z| z.epoch_nanoseconds().as_i128());
                            cmp!("PlainDateTime::to_zoned_date_time", show(pdt.to_zoned_date_time(z.timezone(), dis)), show(pdt.to_zoned_date_time_with_provider(z.timezone(), dis, &provider)));
                        }
                    }
                }
            }
            // difference operations: every largest unit, directed rounding modes, both directions
            let ns2 = ns + rng.range(-40_000_000_000_000_000, 40_000_000_000_000_000);
            if let Ok(z2) = ZonedDateTime::try_new(ns2, Calendar::default(), z.timezone().clone()) {
                for lu in [Unit::Year, Unit::Month, Unit::Week, Unit::Day, Unit::Hour] {
                    for (su, mode) in [(None, None), (Some(Unit::Hour), Some(RoundingMode::Ceil)), (Some(Unit::Hour), Some(RoundingMode::Floor)), (Some(Unit::Minute), Some(RoundingMode::HalfCeil))] {
                        let mut st = DifferenceSettings::default(); st.largest_unit = Some(lu); st.smallest_unit = su; st.rounding_mode = mode; st.increment = RoundingIncrement::try_new(1).ok();
                        let show = |r: temporal_rs::TemporalResult<temporal_rs::Duration>| r.map(|d| d.to_string());
                        cmp!("until", show(z.until(&z2, st)), show(z.until_with_provider(&z2, st, &provider)));
                        cmp!("since", show(z.since(&z2, st)), show(z.since_with_provider(&z2, st, &provider)));
                    }
                }
            }
            if fails.len() >= 5 { return; }
        }
    }
}
