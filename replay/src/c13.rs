use crate::{oracle, Failure, Rng};
use temporal_rs::options::{Disambiguation, OffsetDisambiguation};
use temporal_rs::provider::{TimeZoneOffset, TimeZoneProvider, TransitionDirection};
use temporal_rs::iso::IsoDateTime;
use temporal_rs::time::EpochNanoseconds;
use temporal_rs::{Calendar, PlainDateTime, TemporalResult, TimeZone, ZonedDateTime};
use std::panic::catch_unwind;

const NS_DAY: i128 = 86_400_000_000_000;

/// A synthetic provider implementing the PUBLIC trait: offset `initial` before the first transition, then the listed
/// (transition instant in epoch seconds, new offset in seconds).  Any rule set can be expressed this way.
pub struct Synth { pub initial: i64, pub transitions: Vec<(i64, i64)> }
impl Synth {
    fn off(&self, t_ns: i128) -> (i64, Option<i64>) {
        let s = t_ns.div_euclid(1_000_000_000);
        let mut o = self.initial; let mut tr = None;
        for (at, new) in &self.transitions { if s >= *at as i128 { o = *new; tr = Some(*at); } }
        (o, tr)
    }
    pub fn possible(&self, local_ns: i128) -> Vec<i128> {
        let mut v = Vec::new();
        let mut segs: Vec<(i128, i128, i64)> = Vec::new();
        let mut lo = i128::MIN / 4; let mut o = self.initial;
        for (at, new) in &self.transitions { let a = *at as i128 * 1_000_000_000; segs.push((lo, a, o)); lo = a; o = *new; }
        segs.push((lo, i128::MAX / 4, o));
        for (a, b, o) in segs { let t = local_ns - o as i128 * 1_000_000_000; if t >= a && t < b { v.push(t); } }
        v.sort(); v
    }
}
fn iso_ns(dt: &IsoDateTime) -> i128 {
    let d = oracle::days_from_civil(dt.date.year as i64, dt.date.month as i64, dt.date.day as i64) as i128;
    d * NS_DAY + ((((dt.time.hour as i128 * 60 + dt.time.minute as i128) * 60 + dt.time.second as i128) * 1000 + dt.time.millisecond as i128) * 1000 + dt.time.microsecond as i128) * 1000 + dt.time.nanosecond as i128
}
impl TimeZoneProvider for Synth {
    fn check_identifier(&self, _: &str) -> bool { true }
    fn get_named_tz_epoch_nanoseconds(&self, _: &str, local: IsoDateTime) -> TemporalResult<Vec<EpochNanoseconds>> {
        Ok(self.possible(iso_ns(&local)).into_iter().filter_map(|t| EpochNanoseconds::try_from(t).ok()).collect())
    }
    fn get_named_tz_offset_nanoseconds(&self, _: &str, t: i128) -> TemporalResult<TimeZoneOffset> {
        let (o, tr) = self.off(t);
        Ok(TimeZoneOffset { transition_epoch: tr, offset: o })
    }
    fn get_named_tz_transition(&self, _: &str, _: i128, _: TransitionDirection) -> TemporalResult<Option<EpochNanoseconds>> { Ok(None) }
}

fn dt_of(local_ns: i128) -> Option<PlainDateTime> {
    let day = local_ns.div_euclid(NS_DAY); let t = local_ns.rem_euclid(NS_DAY);
    let (y, m, d) = oracle::civil_from_days(day as i64);
    PlainDateTime::try_new(y as i32, m as u8, d as u8, (t / 3_600_000_000_000) as u8, (t / 60_000_000_000 % 60) as u8, (t / 1_000_000_000 % 60) as u8, (t / 1_000_000 % 1000) as u16, (t / 1000 % 1000) as u16, (t % 1000) as u16, Calendar::default()).ok()
}

/// expected instant per the statement; None = error
fn expected(p: &Synth, local: i128, dis: Disambiguation) -> Option<i128> {
    let v = p.possible(local);
    match v.len() {
        1 => Some(v[0]),
        0 => {
            if matches!(dis, Disambiguation::Reject) { return None; }
            // the transition that skips `local`: T + o1 <= local < T + o2
            let mut o1 = p.initial;
            for (at, o2) in &p.transitions {
                let tt = *at as i128 * 1_000_000_000;
                if tt + o1 as i128 * 1_000_000_000 <= local && local < tt + *o2 as i128 * 1_000_000_000 {
                    return Some(if matches!(dis, Disambiguation::Earlier) { local - *o2 as i128 * 1_000_000_000 } else { local - o1 as i128 * 1_000_000_000 });
                }
                o1 = *o2;
            }
            None
        }
        _ => match dis { Disambiguation::Compatible | Disambiguation::Earlier => Some(v[0]), Disambiguation::Later => Some(v[v.len() - 1]), _ => None },
    }
}

fn check(p: &Synth, local: i128, dis: Disambiguation, tag: &str, fails: &mut Vec<Failure>) {
    let Some(dt) = dt_of(local) else { return };
    let tz = TimeZone::IanaIdentifier("Synthetic/Zone".into());
    let want = expected(p, local, dis);
    let input = format!("{tag} initial={} transitions={:?} local_ns={local} disambiguation={dis:?}", p.initial, p.transitions);
    let r = catch_unwind(std::panic::AssertUnwindSafe(|| dt.to_zoned_date_time_with_provider(&tz, dis, p).map(|z| z.epoch_nanoseconds().as_i128())));
    match r {
        Err(_) => fails.push(Failure { what: "wall-clock -> instant panicked".into(), input, expected: format!("{want:?}"), observed: "panic".into() }),
        Ok(Ok(got)) => {
            if Some(got) != want { fails.push(Failure { what: "wall-clock -> instant".into(), input: input.clone(), expected: format!("{want:?}"), observed: format!("{got}") }); }
            // and back: the reading of the returned instant
            if let Ok(z) = ZonedDateTime::try_new(got, Calendar::default(), tz.clone()) {
                if let Ok(Ok(back)) = catch_unwind(std::panic::AssertUnwindSafe(|| z.to_plain_datetime_with_provider(p))) {
                    let (o, _) = p.off(got);
                    let rd = got + o as i128 * 1_000_000_000;
                    if Some(back.clone()) != dt_of(rd) { fails.push(Failure { what: "instant -> wall-clock".into(), input, expected: format!("reading {rd}"), observed: format!("{back:?}") }); }
                }
            }
        }
        Ok(Err(e)) => if want.is_some() { fails.push(Failure { what: "wall-clock -> instant error".into(), input, expected: format!("{want:?}"), observed: format!("{e:?}") }); },
    }
}

/// offset options (C13 last sentence): a date-time string with an explicit offset / Z and a bracketed synthetic zone
fn check_offset(p: &Synth, local: i128, dis: Disambiguation, rng: &mut Rng, fails: &mut Vec<Failure>) {
    let Some(dt) = dt_of(local) else { return };
    if dt.year() < 0 || dt.year() > 9999 { return; }
    let cands = p.possible(local);
    // an offset taken from a candidate, from the other side of the transition, or arbitrary
    let mut offs: Vec<i64> = cands.iter().map(|c| ((local - c) / 1_000_000_000) as i64).collect();
    offs.push(p.initial); for (_, o) in &p.transitions { offs.push(*o); }
    offs.push(rng.range(-14 * 60, 14 * 60) as i64 * 60);
    // offsets with a seconds part, both signs (the text then carries +-HH:MM:SS)
    offs.push(rng.range(-14 * 3600, 14 * 3600) as i64);
    offs.push(-(rng.range(1, 59) as i64));
    let off = offs[(rng.next() % offs.len() as u64) as usize];
    let base = format!("{:04}-{:02}-{:02}T{:02}:{:02}:{:02}.{:03}{:03}{:03}", dt.year(), dt.month(), dt.day(), dt.hour(), dt.minute(), dt.second(), dt.millisecond(), dt.microsecond(), dt.nanosecond());
    let offtxt = if off % 60 == 0 { format!("{}{:02}:{:02}", if off < 0 { '-' } else { '+' }, off.abs() / 3600, off.abs() / 60 % 60) }
        else { format!("{}{:02}:{:02}:{:02}", if off < 0 { '-' } else { '+' }, off.abs() / 3600, off.abs() / 60 % 60, off.abs() % 60) };
    for (optname, opt) in [("use", OffsetDisambiguation::Use), ("ignore", OffsetDisambiguation::Ignore), ("prefer", OffsetDisambiguation::Prefer), ("reject", OffsetDisambiguation::Reject)] {
        for z in [false, true] {
            let text = format!("{base}{}[Synthetic/Zone]", if z { "Z".to_string() } else { offtxt.clone() });
            let off_ns = off as i128 * 1_000_000_000;
            let want: Option<i128> = if z { Some(local) } else {
                match opt {
                    OffsetDisambiguation::Use => Some(local - off_ns),
                    OffsetDisambiguation::Ignore => expected(p, local, dis),
                    _ => {
                        if let Some(c) = cands.iter().find(|c| local - **c == off_ns) { Some(*c) }
                        else if matches!(opt, OffsetDisambiguation::Reject) { None } else { expected(p, local, dis) }
                    }
                }
            };
            let input = format!("offset-option text={text} offset={optname} disambiguation={dis:?} initial={} transitions={:?}", p.initial, p.transitions);
            let r = catch_unwind(std::panic::AssertUnwindSafe(|| ZonedDateTime::from_str_with_provider(&text, dis, opt, p).map(|z| z.epoch_nanoseconds().as_i128())));
            match r {
                Err(_) => fails.push(Failure { what: "offset option: panicked".into(), input, expected: format!("{want:?}"), observed: "panic".into() }),
                Ok(Ok(got)) => if Some(got) != want { fails.push(Failure { what: "offset option: instant".into(), input, expected: format!("{want:?}"), observed: format!("{got}") }); },
                Ok(Err(e)) => if want.is_some() { fails.push(Failure { what: "offset option: error".into(), input, expected: format!("{want:?}"), observed: format!("{e:?}") }); },
            }
            if fails.len() >= 5 { return; }
        }
    }
}

/// a zoned relativeTo string (C13 observe-at RelativeTo::try_from_str_with_provider): the offset must match the zone
/// (option reject), a repeated or skipped time resolves as compatible, Z is the exact instant
fn check_relative_to(p: &Synth, local: i128, rng: &mut Rng, fails: &mut Vec<Failure>) {
    let Some(dt) = dt_of(local) else { return };
    if dt.year() < 0 || dt.year() > 9999 { return; }
    let cands = p.possible(local);
    let mut offs: Vec<i64> = cands.iter().map(|c| ((local - c) / 1_000_000_000) as i64).collect();
    offs.push(-(rng.range(1, 59) as i64)); offs.push(-(rng.range(60, 14 * 3600) as i64)); offs.push(rng.range(60, 14 * 3600) as i64);
    let base = format!("{:04}-{:02}-{:02}T{:02}:{:02}:{:02}.{:03}{:03}{:03}", dt.year(), dt.month(), dt.day(), dt.hour(), dt.minute(), dt.second(), dt.millisecond(), dt.microsecond(), dt.nanosecond());
    // constant zones whose offset carries seconds, both signs: the matching text must be accepted, to the exact instant
    for off in [-(rng.range(1, 59) as i64), -(rng.range(61, 14 * 3600) as i64) | 1, rng.range(61, 14 * 3600) as i64 | 1, -17762, -2670] {
        let q = Synth { initial: off, transitions: vec![] };
        let offtxt = if off % 60 == 0 { format!("{}{:02}:{:02}", if off < 0 { '-' } else { '+' }, off.abs() / 3600, off.abs() / 60 % 60) }
            else { format!("{}{:02}:{:02}:{:02}", if off < 0 { '-' } else { '+' }, off.abs() / 3600, off.abs() / 60 % 60, off.abs() % 60) };
        let text = format!("{base}{offtxt}[Synthetic/Zone]");
        let want = local - off as i128 * 1_000_000_000;
        if want.abs() > 8_640_000_000_000_000_000_000 { continue; }
        let input = format!("relativeTo text={text} initial={off} transitions=[]");
        match catch_unwind(std::panic::AssertUnwindSafe(|| temporal_rs::options::RelativeTo::try_from_str_with_provider(&text, &q))) {
            Ok(Ok(temporal_rs::options::RelativeTo::ZonedDateTime(z))) if z.epoch_nanoseconds().as_i128() == want => {}
            other => fails.push(Failure { what: "relativeTo string: offset of a constant zone".into(), input, expected: format!("{want}"), observed: format!("{:?}", other.map(|r| r.map(|v| match v { temporal_rs::options::RelativeTo::ZonedDateTime(z) => z.epoch_nanoseconds().as_i128(), _ => 0 }))) }),
        }
        if fails.len() >= 5 { return; }
    }
    for off in offs {
        let offtxt = if off % 60 == 0 { format!("{}{:02}:{:02}", if off < 0 { '-' } else { '+' }, off.abs() / 3600, off.abs() / 60 % 60) }
            else { format!("{}{:02}:{:02}:{:02}", if off < 0 { '-' } else { '+' }, off.abs() / 3600, off.abs() / 60 % 60, off.abs() % 60) };
        let text = format!("{base}{offtxt}[Synthetic/Zone]");
        let off_ns = off as i128 * 1_000_000_000;
        // an exact match is required to be accepted; a text without seconds may also match a candidate to the minute (not decided here)
        let exact = cands.iter().find(|c| local - **c == off_ns).copied();
        let near = cands.iter().any(|c| ((local - *c) - off_ns).abs() < 60_000_000_000);
        let input = format!("relativeTo text={text} initial={} transitions={:?}", p.initial, p.transitions);
        let r = catch_unwind(std::panic::AssertUnwindSafe(|| temporal_rs::options::RelativeTo::try_from_str_with_provider(&text, p)));
        match r {
            Err(_) => fails.push(Failure { what: "relativeTo string: panicked".into(), input, expected: format!("{exact:?}"), observed: "panic".into() }),
            Ok(Ok(temporal_rs::options::RelativeTo::ZonedDateTime(z))) => {
                let got = z.epoch_nanoseconds().as_i128();
                if let Some(w) = exact { if got != w { fails.push(Failure { what: "relativeTo string: instant".into(), input, expected: format!("{w}"), observed: format!("{got}") }); } }
                else if !near { fails.push(Failure { what: "relativeTo string: offset that does not match the zone accepted".into(), input, expected: "RangeError".into(), observed: format!("{got}") }); }
            }
            Ok(Ok(_)) => fails.push(Failure { what: "relativeTo string: zoned string read as a plain date".into(), input, expected: format!("{exact:?}"), observed: "PlainDate".into() }),
            Ok(Err(e)) => if exact.is_some() { fails.push(Failure { what: "relativeTo string: matching offset refused".into(), input, expected: format!("{exact:?}"), observed: format!("{e:?}") }); },
        }
        if fails.len() >= 5 { return; }
    }
}

/// a property bag without time fields denotes MIDNIGHT of its date (C13 observe-at from_partial_with_provider), also when
/// the zone skips or repeats midnight: synthetic zones whose transition removes / repeats the hour around local midnight
pub fn check_partial_midnight(fails: &mut Vec<Failure>) {
    use temporal_rs::partial::{PartialDate, PartialZonedDateTime};
    // 2018-11-04T00:00 local = 1541289600 s; the zone moves from -03:00 to -02:00 at 03:00Z (local midnight skipped),
    // or from -02:00 to -03:00 at 02:00Z (local 23:00..24:00 of the 3rd repeated), or has no transition
    let midnight_local: i128 = 1_541_289_600 * 1_000_000_000;
    for (initial, transitions) in [(-10800i64, vec![(1_541_300_400i64, -7200i64)]), (-7200, vec![(1_541_296_800, -10800)]), (3600, vec![])] {
        let p = Synth { initial, transitions };
        for dis in DIS {
            let mut bag = PartialZonedDateTime::default();
            bag.date = PartialDate::new().with_year(Some(2018)).with_month(Some(11)).with_day(Some(4));
            bag.timezone = Some(TimeZone::IanaIdentifier("Synthetic/Zone".into()));
            let want = expected(&p, midnight_local, dis);
            let input = format!("from_partial {{year: 2018, month: 11, day: 4}} (no time fields) disambiguation={dis:?} initial={} transitions={:?}", p.initial, p.transitions);
            let r = catch_unwind(std::panic::AssertUnwindSafe(|| ZonedDateTime::from_partial_with_provider(bag, None, Some(dis), None, &p).map(|z| z.epoch_nanoseconds().as_i128())));
            match r {
                Err(_) => fails.push(Failure { what: "from_partial without time: panicked".into(), input, expected: format!("{want:?}"), observed: "panic".into() }),
                Ok(Ok(got)) => if Some(got) != want { fails.push(Failure { what: "from_partial without time: not midnight".into(), input, expected: format!("{want:?}"), observed: format!("{got}") }); },
                Ok(Err(e)) => if want.is_some() { fails.push(Failure { what: "from_partial without time: error".into(), input, expected: format!("{want:?}"), observed: format!("{e:?}") }); },
            }
        }
    }
}

const DIS: [Disambiguation; 4] = [Disambiguation::Compatible, Disambiguation::Earlier, Disambiguation::Later, Disambiguation::Reject];

/// PlainDate -> ZonedDateTime at the edges of the range: a date-time outside the limits is a RangeError, never a value
pub fn search_edges(fails: &mut Vec<Failure>) {
        let none = Synth { initial: 0, transitions: vec![] };
        for (y, m, d, ok_midnight) in [(-271821i32, 4u8, 19u8, false), (-271821, 4, 20, true), (275760, 9, 13, true), (1970, 1, 1, true)] {
            let Ok(date) = temporal_rs::PlainDate::try_new(y, m, d, temporal_rs::Calendar::default()) else { continue };
            for (h, ns) in [(0u8, 0u16), (0, 1), (12, 0)] {
                let Ok(t) = temporal_rs::PlainTime::try_new(h, 0, 0, 0, 0, ns) else { continue };
                let Ok(tz) = TimeZone::try_from_str("UTC") else { continue };
                let inside = ok_midnight || h > 0 || ns > 0;
                // readings beyond the last representable instant are left out: a provider that reports "no instant" for
                // them sends the core into the gap probe of the recorded known finding (disambiguate_possible_epoch_nanos)
                if y == 275760 && (h > 0 || ns > 0) { continue; }
                let r = catch_unwind(std::panic::AssertUnwindSafe(|| date.to_zoned_date_time_with_provider(tz, Some(t), &none)));
                let input = format!("PlainDate({y}-{m}-{d}).to_zoned_date_time(UTC, {h}:00:00.{ns:09})");
                match r {
                    Ok(Ok(z)) => {
                        let days = crate::oracle::days_from_civil(y as i64, m as i64, d as i64) as i128;
                        let want = days * 86_400_000_000_000 + h as i128 * 3_600_000_000_000 + ns as i128;
                        if !inside || want.abs() > 8_640_000_000_000_000_000_000 { fails.push(Failure { what: "PlainDate::to_zoned_date_time outside the limits returned a value".into(), input, expected: "RangeError".into(), observed: format!("{}", z.epoch_nanoseconds().as_i128()) }); }
                        else if z.epoch_nanoseconds().as_i128() != want { fails.push(Failure { what: "PlainDate::to_zoned_date_time".into(), input, expected: format!("{want}"), observed: format!("{}", z.epoch_nanoseconds().as_i128()) }); }
                    }
                    Ok(Err(_)) => {}
                    Err(_) => fails.push(Failure { what: "PlainDate::to_zoned_date_time panicked".into(), input, expected: "value or RangeError".into(), observed: "panic".into() }),
                }
            }
        }
}

pub fn search(rng: &mut Rng, budget: u64, fails: &mut Vec<Failure>) {
    check_partial_midnight(fails);
    if fails.len() >= 5 { return; }
    search_gap(rng, budget, fails, 3 * 3600);
}

/// max_gap: largest forward jump generated (seconds). The known finding concerns gaps > 3 h.
pub fn search_gap(rng: &mut Rng, budget: u64, fails: &mut Vec<Failure>, max_gap: i64) {
    // fixed-offset zones
    for mins in [-720i16, -90, 0, 330, 765, 840] {
        let tz = TimeZone::try_from_str(&format!("{}{:02}:{:02}", if mins < 0 { '-' } else { '+' }, mins.abs() / 60, mins.abs() % 60));
        let Ok(tz) = tz else { continue };
        for _ in 0..20 {
            let local = rng.range(-8_000_000_000_000_000_000_000, 8_000_000_000_000_000_000_000);
            let Some(dt) = dt_of(local) else { continue };
            let none = Synth { initial: 0, transitions: vec![] };
            if let Ok(Ok(z)) = catch_unwind(std::panic::AssertUnwindSafe(|| dt.to_zoned_date_time_with_provider(&tz, Disambiguation::Reject, &none))) {
                let want = local - mins as i128 * 60_000_000_000;
                if z.epoch_nanoseconds().as_i128() != want { fails.push(Failure { what: "fixed offset wall-clock -> instant".into(), input: format!("offset_min={mins} local_ns={local}"), expected: format!("{want}"), observed: format!("{}", z.epoch_nanoseconds().as_i128()) }); }
            }
        }
    }
    search_edges(fails);
    if fails.len() >= 5 { return; }
    for k in 0..(budget / 50) {
        // one or two transitions; forward gaps up to max_gap, backward overlaps up to 3 h
        let t1 = rng.range(-4_000_000_000, 4_000_000_000) as i64;
        let o0 = rng.range(-14 * 3600, 14 * 3600) as i64 / 900 * 900;
        let jump = if k % 2 == 0 { rng.range(900, max_gap as i128) as i64 } else { -(rng.range(900, 3 * 3600) as i64) } / 900 * 900;
        let jump = if jump == 0 { 3600 } else { jump };
        let mut tr = vec![(t1, o0 + jump)];
        if rng.next() % 2 == 0 { tr.push((t1 + rng.range(20 * 86_400, 200 * 86_400) as i64, o0)); }
        let p = Synth { initial: o0, transitions: tr.clone() };
        for (at, _) in &tr {
            for _ in 0..6 {
                let near = *at as i128 * 1_000_000_000 + (o0 as i128 + rng.range(-5 * 3600, 5 * 3600 + jump.abs() as i128)) * 1_000_000_000 + rng.range(0, 999_999_999);
                for dis in DIS { check(&p, near, dis, "synthetic", fails); if fails.len() >= 5 { return; } }
                if max_gap <= 3 * 3600 { check_offset(&p, near, DIS[(rng.next() % 4) as usize], rng, fails); if fails.len() >= 5 { return; } check_relative_to(&p, near, rng, fails); if fails.len() >= 5 { return; } }
            }
        }
    }
}
