use crate::{oracle, Failure, Rng};
use temporal_rs::{Calendar, PlainDate, PlainDateTime, Instant, TimeZone};
use temporal_rs::options::{DifferenceSettings, Unit, ArithmeticOverflow};
use std::panic::catch_unwind;

fn check_day(n: i64, fails: &mut Vec<Failure>) {
    let (y, m, d) = oracle::civil_from_days(n);
    let r = catch_unwind(|| PlainDate::try_new(y as i32, m as u8, d as u8, Calendar::default()));
    let date = match r {
        Ok(Ok(dt)) => dt,
        other => {
            fails.push(Failure { what: "PlainDate::try_new of an in-range date".into(), input: format!("day={n} ymd={y}-{m}-{d}"), expected: "Ok".into(), observed: format!("{:?}", other.map(|x| x.map(|_| ()))) });
            return;
        }
    };
    // distance in days from the epoch date == n
    let epoch = PlainDate::try_new(1970, 1, 1, Calendar::default()).unwrap();
    let mut s = DifferenceSettings::default();
    s.largest_unit = Some(Unit::Day);
    match catch_unwind(|| epoch.until(&date, s)) {
        Ok(Ok(dur)) => {
            if dur.days().as_inner() != n as f64 {
                fails.push(Failure { what: "until(largestUnit=day) from 1970-01-01".into(), input: format!("{y}-{m}-{d}"), expected: format!("{n}"), observed: format!("{}", dur.days().as_inner()) });
            }
        }
        other => fails.push(Failure { what: "until panicked/failed".into(), input: format!("{y}-{m}-{d}"), expected: format!("{n}"), observed: format!("{:?}", other.map(|x| x.map(|_| ()))) }),
    }
    // fields
    if date.iso_year() != y as i32 || date.iso_month() != m as u8 || date.iso_day() != d as u8 {
        fails.push(Failure { what: "iso fields".into(), input: format!("{y}-{m}-{d}"), expected: format!("{y}-{m}-{d}"), observed: format!("{}-{}-{}", date.iso_year(), date.iso_month(), date.iso_day()) });
    }
    // calendar getters agree with the proleptic Gregorian rule; ISO 8601 weeks (Monday first, week 1 holds the year's first Thursday)
    {
        let dow = (n + 3).rem_euclid(7) + 1;
        let doy = n - oracle::days_from_civil(y, 1, 1) + 1;
        let leap = oracle::dim(y, 2) == 29;
        let thu = n - (dow - 1) + 3;
        let (wy, _, _) = oracle::civil_from_days(thu);
        let week = (thu - oracle::days_from_civil(wy, 1, 1)) / 7 + 1;
        macro_rules! g { ($name:literal, $e:expr, $want:expr) => {
            match catch_unwind(|| $e) {
                Ok(Ok(v)) => if v != $want { fails.push(Failure { what: format!("PlainDate::{}", $name), input: format!("{y}-{m}-{d}"), expected: format!("{:?}", $want), observed: format!("{:?}", v) }); },
                other => fails.push(Failure { what: format!("PlainDate::{} failed", $name), input: format!("{y}-{m}-{d}"), expected: format!("{:?}", $want), observed: format!("{:?}", other.map(|x| x.map(|_| ()))) }),
            } } }
        g!("day_of_week", Ok::<_, temporal_rs::TemporalError>(date.day_of_week()), dow as u16);
        g!("day_of_year", Ok::<_, temporal_rs::TemporalError>(date.day_of_year()), doy as u16);
        g!("days_in_month", Ok::<_, temporal_rs::TemporalError>(date.days_in_month()), oracle::dim(y, m) as u16);
        g!("days_in_year", Ok::<_, temporal_rs::TemporalError>(date.days_in_year()), if leap { 366u16 } else { 365u16 });
        g!("in_leap_year", Ok::<_, temporal_rs::TemporalError>(date.in_leap_year()), leap);
        g!("week_of_year", date.week_of_year(), Some(week as u16));
        g!("year_of_week", date.year_of_week(), Some(wy as i32));
    }
    // adding one day gives the calendar successor
    if n < oracle::MAX_DAY {
        let (y2, m2, d2) = oracle::civil_from_days(n + 1);
        let one = temporal_rs::Duration::new(0.into(), 0.into(), 0.into(), 1.into(), 0.into(), 0.into(), 0.into(), 0.into(), 0.into(), 0.into()).unwrap();
        match catch_unwind(|| date.add(&one, Some(ArithmeticOverflow::Reject))) {
            Ok(Ok(nx)) => {
                if (nx.iso_year() as i64, nx.iso_month() as i64, nx.iso_day() as i64) != (y2, m2, d2) {
                    fails.push(Failure { what: "add(1 day)".into(), input: format!("{y}-{m}-{d}"), expected: format!("{y2}-{m2}-{d2}"), observed: format!("{}-{}-{}", nx.iso_year(), nx.iso_month(), nx.iso_day()) });
                }
            }
            other => fails.push(Failure { what: "add(1 day) failed".into(), input: format!("{y}-{m}-{d}"), expected: format!("{y2}-{m2}-{d2}"), observed: format!("{:?}", other.map(|x| x.map(|_| ()))) }),
        }
    }
    // UTC instant and back (only where the date-time at midnight is an instant)
    if n.abs() <= 100_000_000 {
        let ns = n as i128 * 86_400_000_000_000;
        if let Ok(Ok(inst)) = catch_unwind(|| Instant::try_new(ns)) {
            let tz = TimeZone::try_from_str("UTC");
            if let Ok(tz) = tz {
                if let Ok(Ok(zdt)) = catch_unwind(|| temporal_rs::ZonedDateTime::try_new(inst.epoch_nanoseconds().as_i128(), Calendar::default(), tz)) {
                    if let Ok(Ok(pdt)) = catch_unwind(|| zdt.to_plain_datetime()) {
                        let got = (pdt.iso_year() as i64, pdt.iso_month() as i64, pdt.iso_day() as i64, pdt.hour(), pdt.minute(), pdt.second());
                        if got != (y, m, d, 0, 0, 0) {
                            fails.push(Failure { what: "instant -> UTC date-time".into(), input: format!("ns={ns}"), expected: format!("{y}-{m}-{d}T00:00:00"), observed: format!("{:?}", got) });
                        }
                    }
                }
            }
        }
    }
    let _ = PlainDateTime::try_new(1970, 1, 1, 0, 0, 0, 0, 0, 0, Calendar::default());
}

pub fn search(rng: &mut Rng, budget: u64, fails: &mut Vec<Failure>) {
    let mut days: Vec<i64> = vec![oracle::MIN_DAY, oracle::MIN_DAY + 1, oracle::MAX_DAY, oracle::MAX_DAY - 1, -1, 0, 1, 58, 59, 60, 789, 11016, 11017];
    // every century / 400-year boundary neighbourhood in range, leap days
    let mut y = -271_800i64;
    while y <= 275_700 {
        for (m, d) in [(1, 1), (2, 28), (3, 1), (12, 31)] {
            let n = oracle::days_from_civil(y, m, d);
            days.push(n); days.push(n + 1); days.push(n - 1);
        }
        y += 100;
    }
    for n in days {
        if n >= oracle::MIN_DAY && n <= oracle::MAX_DAY { check_day(n, fails); }
        if fails.len() >= 5 { return; }
    }
    for _ in 0..(budget / 20) {
        let n = rng.range(oracle::MIN_DAY as i128, oracle::MAX_DAY as i128) as i64;
        check_day(n, fails);
        if fails.len() >= 5 { return; }
    }
}
