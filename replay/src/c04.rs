use crate::{oracle, Failure, Rng};
use temporal_rs::options::{ArithmeticOverflow, DifferenceSettings, Unit};
use temporal_rs::{Calendar, Duration, PlainDate};
use std::panic::catch_unwind;

fn date(y: i64, m: i64, d: i64) -> Option<PlainDate> { PlainDate::try_new(y as i32, m as u8, d as u8, Calendar::default()).ok() }
fn dur(y: f64, m: f64, w: f64, d: f64) -> Option<Duration> {
    use temporal_rs::primitive::FiniteF64 as F;
    Duration::new(F::try_from(y).ok()?, F::try_from(m).ok()?, F::try_from(w).ok()?, F::try_from(d).ok()?, F::default(), F::default(), F::default(), F::default(), F::default(), F::default()).ok()
}

/// AddISODate from the statement: years/months first, day constrained or rejected, then weeks and days. None = RangeError.
pub fn add_oracle(y: i64, m: i64, d: i64, dy: i64, dm: i64, dw: i64, dd: i64, reject: bool) -> Option<(i64, i64, i64)> {
    let mi = (m - 1) as i128 + dm as i128;
    let yy = y as i128 + dy as i128 + mi.div_euclid(12);
    let mm = mi.rem_euclid(12) + 1;
    if yy.abs() > 400_000 { return None; }
    let (yy, mm) = (yy as i64, mm as i64);
    let dim = oracle::dim(yy, mm);
    if d > dim && reject { return None; }
    let day = d.min(dim);
    let base = oracle::days_from_civil(yy, mm, day);
    let n = base as i128 + 7 * dw as i128 + dd as i128;
    if n < oracle::MIN_DAY as i128 || n > oracle::MAX_DAY as i128 { return None; }
    Some(oracle::civil_from_days(n as i64))
}

fn check_add(y: i64, m: i64, d: i64, dy: i64, dm: i64, dw: i64, dd: i64, reject: bool, fails: &mut Vec<Failure>) {
    let Some(start) = date(y, m, d) else { return };
    let Some(du) = dur(dy as f64, dm as f64, dw as f64, dd as f64) else { return };
    let ov = if reject { ArithmeticOverflow::Reject } else { ArithmeticOverflow::Constrain };
    let input = format!("{y}-{m}-{d} + P{dy}Y{dm}M{dw}W{dd}D overflow={}", if reject { "reject" } else { "constrain" });
    let expected = add_oracle(y, m, d, dy, dm, dw, dd, reject);
    match catch_unwind(|| start.add(&du, Some(ov))) {
        Err(_) => fails.push(Failure { what: "PlainDate::add panicked".into(), input, expected: format!("{expected:?}"), observed: "panic".into() }),
        Ok(Ok(r)) => {
            let got = (r.iso_year() as i64, r.iso_month() as i64, r.iso_day() as i64);
            if Some(got) != expected {
                // an intermediate date outside the limits may be rejected by the implementation (not decided here)
                fails.push(Failure { what: "PlainDate::add".into(), input, expected: format!("{expected:?}"), observed: format!("{got:?}") });
            }
        }
        Ok(Err(e)) => {
            if let Some(exp) = expected {
                // tolerated: error when the *intermediate* (after years/months) date is outside the limits
                let mi = (m - 1) + dm; let yy = y + dy + mi.div_euclid(12); let mm = mi.rem_euclid(12) + 1;
                let day = d.min(oracle::dim(yy, mm));
                let inter = oracle::days_from_civil(yy, mm, day);
                if inter >= oracle::MIN_DAY && inter <= oracle::MAX_DAY {
                    fails.push(Failure { what: "PlainDate::add returned an error".into(), input, expected: format!("{exp:?}"), observed: format!("{e:?}") });
                }
            } else if format!("{:?}", e.kind()) != "Range" {
                fails.push(Failure { what: "PlainDate::add error kind".into(), input, expected: "RangeError".into(), observed: format!("{e:?}") });
            }
        }
    }
}

fn check_until(a: (i64, i64, i64), b: (i64, i64, i64), unit: Unit, fails: &mut Vec<Failure>) {
    let (Some(da), Some(db)) = (date(a.0, a.1, a.2), date(b.0, b.1, b.2)) else { return };
    let mut s = DifferenceSettings::default();
    s.largest_unit = Some(unit);
    let input = format!("{a:?} until {b:?} largest={unit:?}");
    let r = catch_unwind(|| da.until(&db, s));
    let Ok(Ok(du)) = r else {
        fails.push(Failure { what: "PlainDate::until failed".into(), input, expected: "Ok".into(), observed: format!("{:?}", r.map(|x| x.map(|_| ()))) });
        return;
    };
    let f = [du.years().as_inner(), du.months().as_inner(), du.weeks().as_inner(), du.days().as_inner()];
    let pos = f.iter().any(|v| *v > 0.0); let neg = f.iter().any(|v| *v < 0.0);
    if pos && neg { fails.push(Failure { what: "until: mixed signs".into(), input: input.clone(), expected: "sign-uniform".into(), observed: format!("{f:?}") }); }
    // balanced
    let bad = match unit { Unit::Year => f[1].abs() >= 12.0 || f[2] != 0.0 || f[3].abs() >= 31.0, Unit::Month => f[0] != 0.0 || f[2] != 0.0 || f[3].abs() >= 31.0,
        Unit::Week => f[0] != 0.0 || f[1] != 0.0 || f[3].abs() >= 7.0, _ => f[0] != 0.0 || f[1] != 0.0 || f[2] != 0.0 };
    if bad { fails.push(Failure { what: "until: not balanced".into(), input: input.clone(), expected: "balanced".into(), observed: format!("{f:?}") }); }
    if matches!(unit, Unit::Day) {
        let dist = oracle::days_from_civil(b.0, b.1, b.2) - oracle::days_from_civil(a.0, a.1, a.2);
        if f[3] != dist as f64 { fails.push(Failure { what: "until(day) != distance".into(), input: input.clone(), expected: format!("{dist}"), observed: format!("{}", f[3]) }); }
    }
    // inverse law
    match catch_unwind(|| da.add(&du, Some(ArithmeticOverflow::Constrain))) {
        Ok(Ok(back)) => {
            if back.compare_iso(&db) != core::cmp::Ordering::Equal {
                fails.push(Failure { what: "start.add(start.until(end)) != end".into(), input: input.clone(), expected: format!("{b:?}"), observed: format!("{}-{}-{} via {f:?}", back.iso_year(), back.iso_month(), back.iso_day()) });
            }
        }
        other => fails.push(Failure { what: "add(until) failed".into(), input: input.clone(), expected: format!("{b:?}"), observed: format!("{:?} via {f:?}", other.map(|x| x.map(|_| ()))) }),
    }
    // since is the negation
    if let Ok(Ok(si)) = catch_unwind(|| da.since(&db, s)) {
        let g = [si.years().as_inner(), si.months().as_inner(), si.weeks().as_inner(), si.days().as_inner()];
        if (0..4).any(|k| g[k] != -f[k] && !(g[k] == 0.0 && f[k] == 0.0)) {
            fails.push(Failure { what: "since != -until".into(), input, expected: format!("{f:?} negated"), observed: format!("{g:?}") });
        }
    }
}

fn rand_date(rng: &mut Rng) -> (i64, i64, i64) {
    let n = if rng.next() % 3 == 0 { rng.range(-800_000, 800_000) as i64 } else { rng.range(oracle::MIN_DAY as i128, oracle::MAX_DAY as i128) as i64 };
    oracle::civil_from_days(n)
}

pub fn search(rng: &mut Rng, budget: u64, fails: &mut Vec<Failure>) {
    // boundary: huge components must be RangeErrors, never panics or wrapped values
    for &(dy, dm, dw, dd) in &[(2147483647i64, 0i64, 0i64, 0i64), (-2147483648, 0, 0, 0), (0, 2147483647, 0, 0), (0, 0, 400_000_000, 0), (0, 0, -400_000_000, 0),
        (0, 0, 306_783_378, 0), (0, 0, 0, 2147483647), (0, 0, 0, -2147483648), (0, 0, 300_000_000, 2_000_000_000), (4294967294, 0, 0, 0), (0, 0, 613_566_757, 0)] {
        for start in [(1970, 1, 1), (2024, 1, 31), (-271821, 4, 19), (275760, 9, 13)] {
            check_add(start.0, start.1, start.2, dy, dm, dw, dd, false, fails);
            check_add(start.0, start.1, start.2, dy, dm, dw, dd, true, fails);
            if fails.len() >= 5 { return; }
        }
    }
    for _ in 0..(budget / 10) {
        let a = rand_date(rng);
        let span = rng.pick(&[40i128, 400, 5000, 300_000]);
        let (dy, dm) = (rng.range(-span / 10, span / 10) as i64, rng.range(-span, span) as i64);
        let (dw, dd) = (rng.range(-span, span) as i64, rng.range(-span * 10, span * 10) as i64);
        // sign-uniform durations only
        let sg = if rng.next() % 2 == 0 { 1 } else { -1 };
        check_add(a.0, a.1, a.2, sg * dy.abs(), sg * dm.abs(), sg * dw.abs(), sg * dd.abs(), rng.next() % 2 == 0, fails);
        let b = if rng.next() % 2 == 0 { rand_date(rng) } else { oracle::civil_from_days((oracle::days_from_civil(a.0, a.1, a.2) + rng.range(-1500, 1500) as i64).clamp(oracle::MIN_DAY, oracle::MAX_DAY)) };
        let unit = rng.pick(&[Unit::Year, Unit::Month, Unit::Week, Unit::Day]);
        check_until(a, b, unit, fails);
        if fails.len() >= 5 { return; }
    }
}
