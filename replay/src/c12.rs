//! C12 oracle: strings generated from the Temporal grammar with a known verdict (valid by construction, or invalidated
//! by one rule the statement names) and a known value, checked against each type's parser.
use crate::{oracle, Failure, Rng};
use core::str::FromStr;
use temporal_rs::{Duration, Instant, PlainDate, PlainDateTime, PlainTime};
use std::panic::catch_unwind;

struct Gen { text: String, y: i64, mo: i64, d: i64, h: i64, mi: i64, s: i64, frac_ns: i64, frac_digits: usize, off: Option<Option<i64>>, off_frac_digits: usize, valid_generic: bool }

fn year_text(y: i64, rng: &mut Rng) -> String {
    if (0..=9999).contains(&y) && rng.next() % 4 != 0 { format!("{:04}", y) } else { format!("{}{:06}", if y < 0 { '-' } else { '+' }, y.abs()) }
}

fn gen(rng: &mut Rng) -> Gen {
    let y = match rng.next() % 4 { 0 => rng.range(-271_820, 275_759) as i64, _ => rng.range(1, 9999) as i64 };
    let mo = rng.range(1, 12) as i64;
    let d = rng.range(1, oracle::dim(y, mo) as i128) as i64;
    let h = rng.range(0, 23) as i64; let mi = rng.range(0, 59) as i64;
    let s = if rng.next() % 6 == 0 { 60 } else { rng.range(0, 59) as i64 };
    let basic = rng.next() % 3 == 0;
    let mut text = if basic { format!("{}{:02}{:02}", year_text(y, rng), mo, d) } else { format!("{}-{:02}-{:02}", year_text(y, rng), mo, d) };
    text.push(['T', 't', ' '][(rng.next() % 3) as usize]);
    text.push_str(&if basic { format!("{:02}{:02}{:02}", h, mi, s) } else { format!("{:02}:{:02}:{:02}", h, mi, s) });
    // fraction: 0..=11 digits
    let frac_digits = match rng.next() % 5 { 0 => 0, 1 => 9, 2 => rng.range(10, 11) as usize, _ => rng.range(1, 8) as usize };
    let mut frac_ns = 0i64;
    if frac_digits > 0 {
        let digits: String = (0..frac_digits).map(|_| char::from(b'0' + (rng.next() % 10) as u8)).collect();
        text.push(if rng.next() % 4 == 0 { ',' } else { '.' });
        text.push_str(&digits);
        let nine: String = format!("{:0<9}", &digits[..frac_digits.min(9)]);
        frac_ns = nine.parse().unwrap();
    }
    // offset: none / Z / numeric (minute, second, fractional second precision)
    let mut off_frac_digits = 0;
    let off = match rng.next() % 4 {
        0 => None,
        1 => { text.push(if rng.next() % 2 == 0 { 'Z' } else { 'z' }); Some(None) }
        _ => {
            let sign = if rng.next() % 2 == 0 { 1 } else { -1 };
            let oh = rng.range(0, 23) as i64; let om = rng.range(0, 59) as i64;
            let mut ns = (oh * 3600 + om * 60) * 1_000_000_000;
            text.push(if sign > 0 { '+' } else { '-' });
            let ext = rng.next() % 2 == 0;
            text.push_str(&if ext { format!("{:02}:{:02}", oh, om) } else { format!("{:02}{:02}", oh, om) });
            if rng.next() % 3 == 0 {
                let os = rng.range(0, 59) as i64;
                text.push_str(&if ext { format!(":{:02}", os) } else { format!("{:02}", os) });
                ns += os * 1_000_000_000;
                if rng.next() % 2 == 0 {
                    off_frac_digits = if rng.next() % 4 == 0 { 10 } else { rng.range(1, 9) as usize };
                    let digits: String = (0..off_frac_digits).map(|_| char::from(b'0' + (rng.next() % 10) as u8)).collect();
                    text.push('.'); text.push_str(&digits);
                    let nine: String = format!("{:0<9}", &digits[..off_frac_digits.min(9)]);
                    ns += nine.parse::<i64>().unwrap();
                }
            }
            Some(Some(sign * ns))
        }
    };
    Gen { text, y, mo, d, h, mi, s, frac_ns, frac_digits, off, off_frac_digits, valid_generic: true }
}

/// duration strings with a fractional last time component: exact total, at most nine digits
fn duration_case(rng: &mut Rng, fails: &mut Vec<Failure>) {
    let neg = rng.next() % 2 == 0;
    let h = rng.range(0, 500) as i128; let mi = rng.range(0, 500) as i128; let sec = rng.range(0, 500) as i128;
    let digits_n = if rng.next() % 4 == 0 { rng.range(10, 11) as usize } else { rng.range(1, 9) as usize };
    let digits: String = (0..digits_n).map(|_| char::from(b'0' + (rng.next() % 10) as u8)).collect();
    let frac_ns: i128 = format!("{:0<9}", &digits[..digits_n.min(9)]).parse().unwrap();
    let (text, total) = match rng.next() % 3 {
        0 => (format!("{}PT{h}.{digits}H", if neg { "-" } else { "" }), h * 3_600_000_000_000 + frac_ns * 3600),
        1 => (format!("{}PT{h}H{mi}.{digits}M", if neg { "-" } else { "" }), h * 3_600_000_000_000 + mi * 60_000_000_000 + frac_ns * 60),
        _ => (format!("{}PT{h}H{mi}M{sec}.{digits}S", if neg { "-" } else { "" }), h * 3_600_000_000_000 + mi * 60_000_000_000 + sec * 1_000_000_000 + frac_ns),
    };
    let want: Option<i128> = if digits_n > 9 { None } else { Some(if neg { -total } else { total }) };
    let t = text.clone();
    match catch_unwind(move || Duration::from_str(&t)) {
        Err(_) => fails.push(Failure { what: "Duration parser panicked".into(), input: text, expected: format!("{want:?}"), observed: "panic".into() }),
        Ok(r) => {
            let got = r.ok().map(|d| ((((d.hours().as_inner() as i128 * 60 + d.minutes().as_inner() as i128) * 60 + d.seconds().as_inner() as i128) * 1000 + d.milliseconds().as_inner() as i128) * 1000 + d.microseconds().as_inner() as i128) * 1000 + d.nanoseconds().as_inner() as i128);
            if got != want { fails.push(Failure { what: "Duration string value/verdict".into(), input: text, expected: format!("{want:?}"), observed: format!("{got:?}") }); }
        }
    }
}

pub fn search(rng: &mut Rng, budget: u64, fails: &mut Vec<Failure>) {
    for _ in 0..(budget / 10) {
        let g = gen(rng);
        let sec = if g.s == 60 { 59 } else { g.s };
        let local_ns: i128 = oracle::days_from_civil(g.y, g.mo, g.d) as i128 * 86_400_000_000_000 + ((g.h * 3600 + g.mi * 60 + sec) as i128) * 1_000_000_000 + g.frac_ns as i128;
        let too_many = g.frac_digits > 9;
        // Instant: needs offset or Z; at most nine digits (time and offset); value = local - offset
        {
            let want: Option<i128> = match g.off { None => None, _ if too_many || g.off_frac_digits > 9 => None, Some(None) => Some(local_ns), Some(Some(o)) => Some(local_ns - o as i128) };
            let want = want.filter(|v| v.abs() <= 8_640_000_000_000_000_000_000);
            let t = g.text.clone();
            match catch_unwind(move || Instant::from_str(&t).map(|i| i.as_i128())) {
                Err(_) => fails.push(Failure { what: "Instant parser panicked".into(), input: g.text.clone(), expected: format!("{want:?}"), observed: "panic".into() }),
                Ok(r) => { let got = r.ok(); if got != want { fails.push(Failure { what: "Instant string value/verdict".into(), input: g.text.clone(), expected: format!("{want:?}"), observed: format!("{got:?}") }); } }
            }
        }
        // plain types: Z is rejected, a numeric offset is ignored; at most nine digits
        {
            let ok = g.off != Some(None) && !too_many && g.valid_generic;
            let in_dt_range = local_ns > -8_640_000_000_000_000_000_000 - 86_400_000_000_000 && local_ns < 8_640_000_000_000_000_000_000 + 86_400_000_000_000;
            let t = g.text.clone();
            match catch_unwind(move || PlainDateTime::from_str(&t)) {
                Err(_) => fails.push(Failure { what: "PlainDateTime parser panicked".into(), input: g.text.clone(), expected: format!("accept={ok}"), observed: "panic".into() }),
                Ok(r) => {
                    let want_ok = ok && in_dt_range;
                    match r {
                        Ok(dt) => {
                            let fields = (dt.iso_year() as i64, dt.iso_month() as i64, dt.iso_day() as i64, dt.hour() as i64, dt.minute() as i64, dt.second() as i64, dt.millisecond() as i64 * 1_000_000 + dt.microsecond() as i64 * 1000 + dt.nanosecond() as i64);
                            let want = (g.y, g.mo, g.d, g.h, g.mi, sec, g.frac_ns);
                            if !want_ok || fields != want { fails.push(Failure { what: "PlainDateTime string value/verdict".into(), input: g.text.clone(), expected: format!("accept={want_ok} {want:?}"), observed: format!("{fields:?}") }); }
                        }
                        Err(_) => if want_ok { fails.push(Failure { what: "PlainDateTime string rejected".into(), input: g.text.clone(), expected: "accepted".into(), observed: "Err".into() }); },
                    }
                }
            }
            let t = g.text.clone();
            if let Ok(r) = catch_unwind(move || PlainTime::from_str(&t)) {
                match r {
                    Ok(pt) => {
                        let got = (pt.hour() as i64, pt.minute() as i64, pt.second() as i64, pt.millisecond() as i64 * 1_000_000 + pt.microsecond() as i64 * 1000 + pt.nanosecond() as i64);
                        if !ok || got != (g.h, g.mi, sec, g.frac_ns) { fails.push(Failure { what: "PlainTime string value/verdict".into(), input: g.text.clone(), expected: format!("accept={ok} {:?}", (g.h, g.mi, sec, g.frac_ns)), observed: format!("{got:?}") }); }
                    }
                    Err(_) => if ok { fails.push(Failure { what: "PlainTime string rejected".into(), input: g.text.clone(), expected: "accepted".into(), observed: "Err".into() }); },
                }
            }
            // the same time as a time-only string (goes through the time grammar, not the date-time pre-checks)
            if let Some(sep) = g.text.char_indices().skip(8).find(|(_, c)| *c == 'T' || *c == 't' || *c == ' ').map(|(i, _)| i) {
                let rest = &g.text[sep + 1..];
                let end = rest.char_indices().find(|(_, c)| matches!(*c, 'Z' | 'z' | '+' | '-' | '[')).map(|(i, _)| i).unwrap_or(rest.len());
                let time_only = rest[..end].to_string();
                let ok_t = !too_many && g.valid_generic;
                let t2 = time_only.clone();
                match catch_unwind(move || PlainTime::from_str(&t2)) {
                    Err(_) => fails.push(Failure { what: "PlainTime parser panicked".into(), input: time_only.clone(), expected: format!("accept={ok_t}"), observed: "panic".into() }),
                    Ok(Ok(pt)) => {
                        let got = (pt.hour() as i64, pt.minute() as i64, pt.second() as i64, pt.millisecond() as i64 * 1_000_000 + pt.microsecond() as i64 * 1000 + pt.nanosecond() as i64);
                        if !ok_t || got != (g.h, g.mi, sec, g.frac_ns) { fails.push(Failure { what: "PlainTime (time-only string) value/verdict".into(), input: time_only.clone(), expected: format!("accept={ok_t} {:?}", (g.h, g.mi, sec, g.frac_ns)), observed: format!("{got:?}") }); }
                    }
                    Ok(Err(_)) => if ok_t { fails.push(Failure { what: "PlainTime (time-only string) rejected".into(), input: time_only.clone(), expected: "accepted".into(), observed: "Err".into() }); },
                }
            }
            // a month-day from a full date(-time) string (TemporalMonthDayString ::: AnnotatedMonthDay | AnnotatedDateTime):
            // its month and day in reference year 1972; Z and over-long fractions are refused like for the other plain types
            {
                let t = g.text.clone();
                match catch_unwind(move || temporal_rs::PlainMonthDay::from_str(&t)) {
                    Err(_) => fails.push(Failure { what: "PlainMonthDay parser panicked".into(), input: g.text.clone(), expected: format!("accept={ok}"), observed: "panic".into() }),
                    Ok(Ok(md)) => {
                        let got = (md.iso_year() as i64, md.iso_month() as i64, md.iso_day() as i64);
                        if !ok || got != (1972, g.mo, g.d) { fails.push(Failure { what: "PlainMonthDay (full string) value/verdict".into(), input: g.text.clone(), expected: format!("accept={ok} {:?}", (1972, g.mo, g.d)), observed: format!("{got:?}") }); }
                    }
                    Ok(Err(_)) => if ok { fails.push(Failure { what: "PlainMonthDay (full date-time string) rejected".into(), input: g.text.clone(), expected: format!("{:?}", (1972, g.mo, g.d)), observed: "Err".into() }); },
                }
            }
            let in_date_range = { let n = oracle::days_from_civil(g.y, g.mo, g.d); n >= oracle::MIN_DAY + 1 && n <= oracle::MAX_DAY };
            let t = g.text.clone();
            if let Ok(r) = catch_unwind(move || PlainDate::from_str(&t)) {
                let want_ok = ok && in_date_range;
                if r.is_ok() != want_ok { fails.push(Failure { what: "PlainDate string verdict".into(), input: g.text.clone(), expected: format!("accept={want_ok}"), observed: format!("accept={}", r.is_ok()) }); }
            }
        }
        // annotation rules on a plain date string
        {
            let base = format!("{:04}-{:02}-{:02}", g.y.rem_euclid(9999) + 1, g.mo, g.d.min(28));
            let cases: [(&str, bool); 7] = [("[u-ca=iso8601]", true), ("[!u-ca=iso8601]", true), ("[u-ca=iso8601][u-ca=iso8601]", true), ("[!u-ca=iso8601][u-ca=iso8601]", false),
                ("[u-ca=iso8601][!u-ca=iso8601]", false), ("[foo=bar]", true), ("[!foo=bar]", false)];
            let (ann, want) = cases[(rng.next() % 7) as usize];
            let t = format!("{base}{ann}");
            let t2 = t.clone();
            if let Ok(r) = catch_unwind(move || PlainDate::from_str(&t2)) {
                if r.is_ok() != want { fails.push(Failure { what: "annotation rule".into(), input: t, expected: format!("accept={want}"), observed: format!("accept={}", r.is_ok()) }); }
            }
        }
        duration_case(rng, fails);
        if fails.len() >= 5 { return; }
    }
}
