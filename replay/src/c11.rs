use crate::{oracle, Failure, Rng};
use core::str::FromStr;
use temporal_rs::options::*;
use temporal_rs::{Calendar, PlainDate, PlainDateTime, PlainTime, PlainYearMonth, PlainMonthDay, Instant, Duration};
use std::panic::catch_unwind;

macro_rules! rt_enum {
    ($fails:expr, $t:ty, [$($v:expr),*]) => {
        $( {
            let text = $v.to_string();
            match <$t>::from_str(&text) {
                Ok(back) if format!("{:?}", back) == format!("{:?}", $v) => {}
                other => $fails.push(Failure { what: format!("{} text round trip", stringify!($t)), input: format!("{:?}", $v), expected: format!("parses back from {:?}", text), observed: format!("{:?}", other.map(|x| format!("{:?}", x)).map_err(|_| "Err")) }),
            }
        } )*
    };
}

pub fn search(rng: &mut Rng, budget: u64, fails: &mut Vec<Failure>) {
    rt_enum!(fails, Unit, [Unit::Auto, Unit::Nanosecond, Unit::Microsecond, Unit::Millisecond, Unit::Second, Unit::Minute, Unit::Hour, Unit::Day, Unit::Week, Unit::Month, Unit::Year]);
    rt_enum!(fails, RoundingMode, [RoundingMode::Ceil, RoundingMode::Floor, RoundingMode::Expand, RoundingMode::Trunc, RoundingMode::HalfCeil, RoundingMode::HalfFloor, RoundingMode::HalfExpand, RoundingMode::HalfTrunc, RoundingMode::HalfEven]);
    rt_enum!(fails, ArithmeticOverflow, [ArithmeticOverflow::Constrain, ArithmeticOverflow::Reject]);
    rt_enum!(fails, Disambiguation, [Disambiguation::Compatible, Disambiguation::Earlier, Disambiguation::Later, Disambiguation::Reject]);
    rt_enum!(fails, OffsetDisambiguation, [OffsetDisambiguation::Use, OffsetDisambiguation::Prefer, OffsetDisambiguation::Ignore, OffsetDisambiguation::Reject]);
    rt_enum!(fails, DisplayCalendar, [DisplayCalendar::Auto, DisplayCalendar::Always, DisplayCalendar::Never, DisplayCalendar::Critical]);
    rt_enum!(fails, DisplayOffset, [DisplayOffset::Auto, DisplayOffset::Never]);
    rt_enum!(fails, DisplayTimeZone, [DisplayTimeZone::Auto, DisplayTimeZone::Never, DisplayTimeZone::Critical]);
    if fails.len() >= 5 { return; }
    // time-zone identifiers and UTC offsets survive a print / parse round trip; a zoned date-time in a fixed-offset zone prints
    // +-HH:MM and parses back to the same instant in the same zone
    for text in ["+05:30", "-05:30", "-00:45", "+00:00", "-23:59", "+14:00", "-03:30", "UTC", "America/New_York", "Etc/GMT+5", "Etc/GMT-14", "Asia/Kolkata"] {
        match catch_unwind(|| temporal_rs::TimeZone::try_from_str(text).and_then(|z| z.identifier())) {
            Ok(Ok(id)) if id == text => {}
            other => fails.push(Failure { what: "TimeZone identifier round trip".into(), input: text.to_string(), expected: text.to_string(), observed: format!("{:?}", other.map(|r| r.ok())) }),
        }
        if text.starts_with('+') || text.starts_with('-') {
            let sign: i128 = if text.starts_with('-') { -1 } else { 1 };
            let mins: i128 = text[1..3].parse::<i128>().unwrap() * 60 + text[4..6].parse::<i128>().unwrap();
            let inst: i128 = 1_700_000_000_123_000_000;
            if let Ok(tz) = temporal_rs::TimeZone::try_from_str(text) {
                if let Ok(z) = temporal_rs::ZonedDateTime::try_new(inst, Calendar::default(), tz) {
                    let local = inst + sign * mins * 60_000_000_000;
                    let r = catch_unwind(|| z.to_plain_datetime().map(|p| (p.hour() as i128 * 60 + p.minute() as i128, p.second())));
                    let want_min = local.div_euclid(60_000_000_000).rem_euclid(1440);
                    match r { Ok(Ok((m, _))) if m == want_min => {}, other => fails.push(Failure { what: "fixed-offset zone wall clock".into(), input: format!("zone={text} epoch_ns={inst}"), expected: format!("minute of day {want_min}"), observed: format!("{:?}", other.map(|x| x.ok())) }) }
                    if let Ok(txt) = catch_unwind(|| z.to_string()) {
                        if !txt.contains(&format!("{text}[{text}]")) { fails.push(Failure { what: "ZonedDateTime text of a fixed-offset zone".into(), input: format!("zone={text}"), expected: format!("...{text}[{text}]"), observed: txt.clone() }); }
                        match catch_unwind(|| temporal_rs::ZonedDateTime::from_str(&txt, Disambiguation::Reject, OffsetDisambiguation::Reject).map(|b| b.epoch_nanoseconds().as_i128())) {
                            Ok(Ok(b)) if b == inst => {}
                            other => fails.push(Failure { what: "ZonedDateTime format/parse".into(), input: format!("zone={text} epoch_ns={inst}"), expected: format!("{txt} parses back to {inst}"), observed: format!("{:?}", other.map(|x| x.ok())) }),
                        }
                    }
                }
            }
        }
        if fails.len() >= 5 { return; }
    }
    // value round trips
    for k in 0..(budget / 20) {
        let n = match k { 0 => oracle::MIN_DAY + 1, 1 => oracle::MAX_DAY, 2 => oracle::days_from_civil(0, 1, 1), 3 => oracle::days_from_civil(9999, 12, 31), 4 => oracle::days_from_civil(10000, 1, 1), 5 => oracle::days_from_civil(-1, 12, 31),
            _ => if rng.next() % 2 == 0 { rng.range(oracle::MIN_DAY as i128 + 1, oracle::MAX_DAY as i128) as i64 } else { rng.range(-800_000, 4_000_000) as i64 } };
        let (y, m, d) = oracle::civil_from_days(n);
        let Ok(date) = PlainDate::try_new(y as i32, m as u8, d as u8, Calendar::default()) else { continue };
        let text = date.to_ixdtf_string(DisplayCalendar::Auto);
        match catch_unwind(|| PlainDate::from_str(&text)) {
            Ok(Ok(back)) if back == date => {}
            other => fails.push(Failure { what: "PlainDate format/parse".into(), input: format!("{y}-{m}-{d}"), expected: format!("{text} parses back"), observed: format!("{:?}", other.map(|x| x.map(|v| v.to_ixdtf_string(DisplayCalendar::Auto)))) }),
        }
        // canonical year form
        let want_year = if (0..=9999).contains(&y) { format!("{:04}", y) } else { format!("{}{:06}", if y < 0 { '-' } else { '+' }, y.abs()) };
        if !text.starts_with(&format!("{want_year}-{:02}-{:02}", m, d)) {
            fails.push(Failure { what: "PlainDate canonical text".into(), input: format!("{y}-{m}-{d}"), expected: format!("{want_year}-{:02}-{:02}", m, d), observed: text.clone() });
        }
        let ns = rng.range(0, 86_399_999_999_999);
        let ns = match rng.next() % 4 { 0 => ns / 1_000_000_000 * 1_000_000_000, 1 => ns / 1_000_000 * 1_000_000, 2 => ns / 1000 * 1000, _ => ns };
        let t = PlainTime::try_new((ns / 3_600_000_000_000) as u8, (ns / 60_000_000_000 % 60) as u8, (ns / 1_000_000_000 % 60) as u8, (ns / 1_000_000 % 1000) as u16, (ns / 1000 % 1000) as u16, (ns % 1000) as u16).unwrap();
        if let Ok(text) = t.to_ixdtf_string(ToStringRoundingOptions::default()) {
            match catch_unwind(|| PlainTime::from_str(&text)) {
                Ok(Ok(back)) if back == t => {}
                other => fails.push(Failure { what: "PlainTime format/parse".into(), input: format!("time_ns={ns}"), expected: format!("{text} parses back"), observed: format!("{:?}", other.map(|x| x.is_ok())) }),
            }
            let frac = ns % 1_000_000_000;
            let want = if frac == 0 { format!("{:02}:{:02}:{:02}", t.hour(), t.minute(), t.second()) } else { let f = format!("{:09}", frac); format!("{:02}:{:02}:{:02}.{}", t.hour(), t.minute(), t.second(), f.trim_end_matches('0')) };
            if text != want { fails.push(Failure { what: "PlainTime canonical text".into(), input: format!("time_ns={ns}"), expected: want, observed: text }); }
        }
        if let Ok(dt) = PlainDateTime::try_new(y as i32, m as u8, d as u8, t.hour(), t.minute(), t.second(), t.millisecond(), t.microsecond(), t.nanosecond(), Calendar::default()) {
            if let Ok(text) = dt.to_ixdtf_string(ToStringRoundingOptions::default(), DisplayCalendar::Auto) {
                match catch_unwind(|| PlainDateTime::from_str(&text)) {
                    Ok(Ok(back)) if back == dt => {}
                    other => fails.push(Failure { what: "PlainDateTime format/parse".into(), input: format!("{y}-{m}-{d} time_ns={ns}"), expected: format!("{text} parses back"), observed: format!("{:?}", other.map(|x| x.is_ok())) }),
                }
            }
        }
        ymmd_canonical(y, m as u8, d as u8, fails);
        if let Ok(ym) = PlainYearMonth::new_with_overflow(y as i32, m as u8, None, Calendar::default(), ArithmeticOverflow::Reject) {
            let text = ym.to_ixdtf_string(DisplayCalendar::Auto);
            match catch_unwind(|| PlainYearMonth::from_str(&text)) {
                Ok(Ok(back)) if back.to_ixdtf_string(DisplayCalendar::Auto) == text => {}
                other => fails.push(Failure { what: "PlainYearMonth format/parse".into(), input: format!("{y}-{m}"), expected: format!("{text} parses back"), observed: format!("{:?}", other.map(|x| x.map(|v| v.to_ixdtf_string(DisplayCalendar::Auto)))) }),
            }
        }
        if let Ok(md) = PlainMonthDay::new_with_overflow(m as u8, d as u8, Calendar::default(), ArithmeticOverflow::Reject, None) {
            let text = md.to_ixdtf_string(DisplayCalendar::Auto);
            match catch_unwind(|| PlainMonthDay::from_str(&text)) {
                Ok(Ok(back)) if back.to_ixdtf_string(DisplayCalendar::Auto) == text => {}
                other => fails.push(Failure { what: "PlainMonthDay format/parse".into(), input: format!("{m}-{d}"), expected: format!("{text} parses back"), observed: format!("{:?}", other.map(|x| x.map(|v| v.to_ixdtf_string(DisplayCalendar::Auto)))) }),
            }
        }
        let ens = rng.range(-8_640_000_000_000_000_000_000, 8_640_000_000_000_000_000_000);
        if let Ok(i) = Instant::try_new(ens) {
            if let Ok(text) = i.to_ixdtf_string(None, ToStringRoundingOptions::default()) {
                match catch_unwind(|| Instant::from_str(&text)) {
                    Ok(Ok(back)) if back == i => {}
                    other => fails.push(Failure { what: "Instant format/parse".into(), input: format!("epoch_ns={ens}"), expected: format!("{text} parses back"), observed: format!("{:?}", other.map(|x| x.map(|v| v.epoch_nanoseconds().as_i128()))) }),
                }
            }
        }
        let f = |r: &mut Rng, m: i128| temporal_rs::primitive::FiniteF64::try_from(r.range(0, m) as f64).unwrap();
        if let Ok(du) = Duration::new(f(rng, 500), f(rng, 50), f(rng, 50), f(rng, 500), f(rng, 100), f(rng, 100), f(rng, 100), f(rng, 2000), f(rng, 2000), f(rng, 2000)) {
            let du = if rng.next() % 2 == 0 { du.negated() } else { du };
            if let Ok(text) = du.as_temporal_string(ToStringRoundingOptions::default()) {
                match catch_unwind(|| Duration::from_str(&text)) {
                    Ok(Ok(back)) => {
                        // equal once sub-second fields are folded into seconds
                        let tot = |d: &Duration| d.seconds().as_inner() as i128 * 1_000_000_000 + d.milliseconds().as_inner() as i128 * 1_000_000 + d.microseconds().as_inner() as i128 * 1000 + d.nanoseconds().as_inner() as i128;
                        if back.years() != du.years() || back.months() != du.months() || back.weeks() != du.weeks() || back.days() != du.days() || back.hours() != du.hours() || back.minutes() != du.minutes() || tot(&back) != tot(&du) {
                            fails.push(Failure { what: "Duration format/parse".into(), input: text.clone(), expected: "same value".into(), observed: format!("{:?}", back.as_temporal_string(ToStringRoundingOptions::default())) });
                        }
                    }
                    other => fails.push(Failure { what: "Duration format/parse failed".into(), input: text.clone(), expected: "parses back".into(), observed: format!("{:?}", other.map(|x| x.is_ok())) }),
                }
            }
        }
        if fails.len() >= 5 { return; }
    }
}

/// canonical text of a year-month / month-day under each calendar display option (C11 / C18): the hidden reference part is
/// printed exactly when the ISO calendar annotation is forced
pub fn ymmd_canonical(y: i64, m: u8, d: u8, fails: &mut Vec<Failure>) {
    let yt = if (0..=9999).contains(&y) { format!("{y:04}") } else { format!("{}{:06}", if y < 0 { '-' } else { '+' }, y.abs()) };
    // (calendar, is ISO): with a non-ISO calendar the full reference date is always printed, the annotation unless `never`
    for (cal, iso) in [(Calendar::default(), true), (Calendar::from_str("gregory").unwrap_or_default(), false)] {
        let id = if iso { "iso8601" } else { "gregory" };
        if !iso && cal.identifier() != "gregory" { continue; }
        for show in [DisplayCalendar::Auto, DisplayCalendar::Never, DisplayCalendar::Always, DisplayCalendar::Critical] {
            let ann = match show { DisplayCalendar::Never => String::new(), DisplayCalendar::Auto if iso => String::new(), DisplayCalendar::Critical => format!("[!u-ca={id}]"), _ => format!("[u-ca={id}]") };
            let full = !iso || matches!(show, DisplayCalendar::Always | DisplayCalendar::Critical);
            for refday in [None, Some(d)] {
                let c = cal.clone();
                if let Ok(Ok(ym)) = catch_unwind(move || PlainYearMonth::new_with_overflow(y as i32, m, refday, c, ArithmeticOverflow::Reject)) {
                    let want = if full { format!("{yt}-{m:02}-{:02}{ann}", refday.unwrap_or(1)) } else { format!("{yt}-{m:02}{ann}") };
                    match catch_unwind(|| ym.to_ixdtf_string(show)) {
                        Ok(t) if t == want => {}
                        other => fails.push(Failure { what: "PlainYearMonth canonical text".into(), input: format!("{y}-{m} reference day {refday:?} calendar {id} display {show:?}"), expected: want, observed: format!("{other:?}") }),
                    }
                }
            }
            for refyear in [None, Some(y as i32)] {
                let c = cal.clone();
                if let Ok(Ok(md)) = catch_unwind(move || PlainMonthDay::new_with_overflow(m, d, c, ArithmeticOverflow::Reject, refyear)) {
                    let ry = refyear.map(|_| yt.clone()).unwrap_or("1972".into());
                    let want = if full { format!("{ry}-{m:02}-{d:02}{ann}") } else { format!("{m:02}-{d:02}{ann}") };
                    match catch_unwind(|| md.to_ixdtf_string(show)) {
                        Ok(t) if t == want => {
                            // ... and the text parses back to the same month-day (canonical reference year; ISO calendar)
                            if iso && refyear.is_none() {
                                let t2 = t.clone();
                                match catch_unwind(move || PlainMonthDay::from_str(&t2)) {
                                    Ok(Ok(back)) if back == md => {}
                                    other => fails.push(Failure { what: "PlainMonthDay format/parse".into(), input: format!("{m}-{d} display {show:?}"), expected: format!("{t} parses back"), observed: format!("{:?}", other.map(|x| x.map(|v| v.to_ixdtf_string(DisplayCalendar::Always)))) }),
                                }
                            }
                        }
                        other => fails.push(Failure { what: "PlainMonthDay canonical text".into(), input: format!("{m}-{d} reference year {refyear:?} calendar {id} display {show:?}"), expected: want, observed: format!("{other:?}") }),
                    }
                }
            }
        }
    }
}
