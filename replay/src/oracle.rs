//! Independent executable reference: proleptic Gregorian calendar by counting, rounding over i128.
pub fn is_leap(y: i64) -> bool { y % 4 == 0 && (y % 100 != 0 || y % 400 == 0) }
pub fn dim(y: i64, m: i64) -> i64 {
    match m { 2 => if is_leap(y) { 29 } else { 28 }, 4 | 6 | 9 | 11 => 30, _ => 31 }
}
pub fn days_before_year(y: i64) -> i64 {
    365 * y + (y + 3).div_euclid(4) - (y + 99).div_euclid(100) + (y + 399).div_euclid(400)
}
pub fn days_from_civil(y: i64, m: i64, d: i64) -> i64 {
    let mut n = days_before_year(y) - 719528;
    for k in 1..m { n += dim(y, k); }
    n + d - 1
}
/// inverse by search on the year then months (slow but obviously right)
pub fn civil_from_days(n: i64) -> (i64, i64, i64) {
    let mut y = 1970 + (n as f64 / 365.2425).floor() as i64 - 3;
    assert!(days_from_civil(y, 1, 1) <= n);
    while days_from_civil(y + 1, 1, 1) <= n { y += 1; }
    let mut m = 1;
    while m < 12 && days_from_civil(y, m + 1, 1) <= n { m += 1; }
    (y, m, n - days_from_civil(y, m, 1) + 1)
}
pub const MIN_DAY: i64 = -100_000_001;
pub const MAX_DAY: i64 = 100_000_000;

#[derive(Clone, Copy, Debug, PartialEq)]
pub enum Mode { Ceil, Floor, Expand, Trunc, HalfCeil, HalfFloor, HalfExpand, HalfTrunc, HalfEven }
pub const MODES: [Mode; 9] = [Mode::Ceil, Mode::Floor, Mode::Expand, Mode::Trunc, Mode::HalfCeil, Mode::HalfFloor, Mode::HalfExpand, Mode::HalfTrunc, Mode::HalfEven];
pub fn round(x: i128, inc: i128, mode: Mode) -> i128 {
    let q = x.div_euclid(inc);
    let r = x.rem_euclid(inc);
    if r == 0 { return x; }
    let lo = q * inc;
    let hi = lo + inc;
    let away = if x >= 0 { hi } else { lo };
    let toward = if x >= 0 { lo } else { hi };
    let even = if q.rem_euclid(2) == 0 { lo } else { hi };
    match mode {
        Mode::Ceil => hi, Mode::Floor => lo, Mode::Expand => away, Mode::Trunc => toward,
        _ => if 2 * r < inc { lo } else if 2 * r > inc { hi } else { match mode {
            Mode::HalfCeil => hi, Mode::HalfFloor => lo, Mode::HalfExpand => away, Mode::HalfTrunc => toward, _ => even } }
    }
}
