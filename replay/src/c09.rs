use crate::{Failure, Rng};
use temporal_rs::primitive::FiniteF64 as F;
use temporal_rs::Duration;
use temporal_rs::options::{RoundingIncrement, RoundingMode, RoundingOptions, Unit};
use crate::oracle;
use std::panic::catch_unwind;

const LIMIT_NS: i128 = 9_007_199_254_740_992 * 1_000_000_000;

/// IsValidDuration from the statement on integral fields given as exact integers
fn valid(f: [i128; 10]) -> bool {
    let pos = f.iter().any(|v| *v > 0); let neg = f.iter().any(|v| *v < 0);
    if pos && neg { return false; }
    if f[0].abs() >= 4_294_967_296 || f[1].abs() >= 4_294_967_296 || f[2].abs() >= 4_294_967_296 { return false; }
    for k in 3..10 { if f[k].abs() > (1i128 << 90) { return false; } }
    let total = (((f[3] * 24 + f[4]) * 60 + f[5]) * 60 + f[6]) * 1_000_000_000 + f[7] * 1_000_000 + f[8] * 1_000 + f[9];
    total.abs() < LIMIT_NS
}

fn check(f: [i128; 10], fails: &mut Vec<Failure>) {
    // only exactly representable integers
    let g: Vec<f64> = f.iter().map(|v| *v as f64).collect();
    if g.iter().zip(f.iter()).any(|(a, b)| (*a as i128) != *b && b.abs() < (1i128 << 100)) { return; }
    let want = valid(f);
    let input = format!("{f:?}");
    let r = catch_unwind(|| {
        let x = |k: usize| F::try_from(g[k]).unwrap();
        Duration::new(x(0), x(1), x(2), x(3), x(4), x(5), x(6), x(7), x(8), x(9)).is_ok()
    });
    match r {
        Err(_) => fails.push(Failure { what: "Duration::new panicked".into(), input, expected: format!("{}", if want { "Ok" } else { "RangeError" }), observed: "panic".into() }),
        Ok(ok) => if ok != want { fails.push(Failure { what: "Duration::new validity".into(), input, expected: format!("{}", if want { "Ok" } else { "RangeError" }), observed: format!("{}", if ok { "Ok" } else { "Err" }) }) },
    }
}

fn mk(f: [i128; 10]) -> Option<Duration> {
    let x = |k: usize| F::try_from(f[k] as f64).ok();
    Duration::new(x(0)?, x(1)?, x(2)?, x(3)?, x(4)?, x(5)?, x(6)?, x(7)?, x(8)?, x(9)?).ok()
}
fn fields(d: &Duration) -> [i128; 10] {
    let g = |x: F| x.as_inner() as i128;
    [g(d.years()), g(d.months()), g(d.weeks()), g(d.days()), g(d.hours()), g(d.minutes()), g(d.seconds()), g(d.milliseconds()), g(d.microseconds()), g(d.nanoseconds())]
}
fn total(f: &[i128; 10]) -> i128 { (((f[3] * 24 + f[4]) * 60 + f[5]) * 60 + f[6]) * 1_000_000_000 + f[7] * 1_000_000 + f[8] * 1_000 + f[9] }
const UNITS: [(Unit, i128, usize); 7] = [(Unit::Day, 86_400_000_000_000, 3), (Unit::Hour, 3_600_000_000_000, 4), (Unit::Minute, 60_000_000_000, 5), (Unit::Second, 1_000_000_000, 6), (Unit::Millisecond, 1_000_000, 7), (Unit::Microsecond, 1000, 8), (Unit::Nanosecond, 1, 9)];

/// calendar-free arithmetic: add / compare / round / total against exact integers
fn arith(rng: &mut Rng, fails: &mut Vec<Failure>) {
    let sg = |rng: &mut Rng| if rng.next() % 2 == 0 { 1i128 } else { -1 };
    let gen = |rng: &mut Rng, s: i128| { let mut c = [0i128; 10]; for k in 3..10 { if rng.next() % 2 == 0 { c[k] = s * rng.range(0, [0, 0, 0, 400, 100, 6000, 6000, 5000, 5000, 5000][k]); } } c };
    let (s1, s2) = (sg(rng), sg(rng));
    let (a, b) = (gen(rng, s1), gen(rng, s2));
    let (Some(da), Some(db)) = (mk(a), mk(b)) else { return };
    // add: exact sum of totals
    if let Ok(Ok(sum)) = catch_unwind(|| da.add(&db)) {
        let f = fields(&sum);
        if total(&f) != total(&a) + total(&b) || (f.iter().any(|v| *v > 0) && f.iter().any(|v| *v < 0)) {
            fails.push(Failure { what: "Duration::add".into(), input: format!("{a:?} + {b:?}"), expected: format!("total {}", total(&a) + total(&b)), observed: format!("{f:?}") });
        }
    }
    // compare: order of totals
    if let Ok(Ok(o)) = catch_unwind(|| da.compare(&db, None)) {
        if o != total(&a).cmp(&total(&b)) { fails.push(Failure { what: "Duration::compare".into(), input: format!("{a:?} vs {b:?}"), expected: format!("{:?}", total(&a).cmp(&total(&b))), observed: format!("{o:?}") }); }
    }
    // round (time smallest units) on the exact total, and sign symmetry
    let (su, su_ns, _) = UNITS[1 + (rng.next() % 6) as usize];
    let incs: &[u32] = match su { Unit::Hour => &[1, 2, 3, 4, 6, 8, 12], Unit::Minute | Unit::Second => &[1, 2, 5, 10, 15, 20, 30], _ => &[1, 2, 4, 5, 8, 10, 20, 25, 40, 50, 100, 125, 200, 250, 500] };
    let inc = incs[(rng.next() % incs.len() as u64) as usize];
    let modes = [(RoundingMode::Ceil, oracle::Mode::Ceil), (RoundingMode::Floor, oracle::Mode::Floor), (RoundingMode::Expand, oracle::Mode::Expand), (RoundingMode::Trunc, oracle::Mode::Trunc), (RoundingMode::HalfCeil, oracle::Mode::HalfCeil),
        (RoundingMode::HalfFloor, oracle::Mode::HalfFloor), (RoundingMode::HalfExpand, oracle::Mode::HalfExpand), (RoundingMode::HalfTrunc, oracle::Mode::HalfTrunc), (RoundingMode::HalfEven, oracle::Mode::HalfEven)];
    let (mode, om) = modes[(rng.next() % 9) as usize];
    // make ties likely: snap the total to a multiple or a midpoint of the step
    let step = su_ns * inc as i128;
    let mut a2 = a;
    if rng.next() % 2 == 0 { let t = total(&a); let snapped = t / step * step + if rng.next() % 2 == 0 { step / 2 } else { 0 }; a2 = [0; 10]; a2[3] = snapped / 86_400_000_000_000; a2[9] = snapped % 86_400_000_000_000; }
    let Some(da2) = mk(a2) else { return };
    let mut o = RoundingOptions::default(); o.smallest_unit = Some(su); o.rounding_mode = Some(mode); o.increment = RoundingIncrement::try_new(inc).ok();
    let want = oracle::round(total(&a2), step, om);
    let input = format!("{a2:?} smallestUnit={su} increment={inc} mode={mode}");
    match catch_unwind(|| da2.round(o, None)) {
        Err(_) => fails.push(Failure { what: "Duration::round panicked".into(), input: input.clone(), expected: format!("total {want}"), observed: "panic".into() }),
        Ok(Ok(r)) => {
            let f = fields(&r);
            if total(&f) != want { fails.push(Failure { what: "Duration::round (exact total)".into(), input: input.clone(), expected: format!("total {want}"), observed: format!("{f:?}") }); }
            // balanced below the largest unit
            let radix = [0i128, 0, 0, 0, 24, 60, 60, 1000, 1000, 1000];
            let top = (3..10).find(|k| f[*k] != 0).unwrap_or(9);
            for k in (top + 1)..10 { if f[k].abs() >= radix[k] { fails.push(Failure { what: "Duration::round not balanced".into(), input: input.clone(), expected: "fields below the largest unit within their radix".into(), observed: format!("{f:?}") }); break; } }
            // round(-d) == -round(d) with the mode mirrored
            let neg = da2.negated();
            let mirrored = match mode { RoundingMode::Ceil => RoundingMode::Floor, RoundingMode::Floor => RoundingMode::Ceil, RoundingMode::HalfCeil => RoundingMode::HalfFloor, RoundingMode::HalfFloor => RoundingMode::HalfCeil, m => m };
            let mut o2 = o; o2.rounding_mode = Some(mirrored);
            if let Ok(Ok(rn)) = catch_unwind(|| neg.round(o2, None)) {
                let fnr = fields(&rn);
                if fnr.iter().zip(f.iter()).any(|(x, y)| *x != -*y) { fails.push(Failure { what: "round(-d) != -round(d)".into(), input, expected: format!("{:?}", f.map(|v| -v)), observed: format!("{fnr:?}") }); }
            }
        }
        Ok(Err(_)) => {}
    }
    // total: exact total / unit (to double precision)
    let (tu, tu_ns, _) = UNITS[(rng.next() % 7) as usize];
    if let Ok(Ok(t)) = catch_unwind(|| da.total(tu, None)) {
        let want = total(&a) as f64 / tu_ns as f64;
        let got = t.as_inner();
        if (got - want).abs() > want.abs() * 1e-12 + 1e-9 { fails.push(Failure { what: "Duration::total".into(), input: format!("{a:?} unit={tu}"), expected: format!("{want}"), observed: format!("{got}") }); }
    }
}

pub fn search(rng: &mut Rng, budget: u64, fails: &mut Vec<Failure>) {
    let z = [0i128; 10];
    let mut cases: Vec<[i128; 10]> = Vec::new();
    for k in 0..3 { for v in [4_294_967_295i128, 4_294_967_296, -4_294_967_295, -4_294_967_296] { let mut c = z; c[k] = v; cases.push(c); } }
    let p53 = 9_007_199_254_740_992i128;
    for (k, unit) in [(3usize, 86_400i128), (4, 3_600), (5, 60), (6, 1)] {
        // last valid / first invalid whole-second totals
        let q = p53 / unit;
        let mut c = z; c[k] = q; cases.push(c); let mut c = z; c[k] = q + 1; cases.push(c); let mut c = z; c[k] = -(q + 1); cases.push(c);
    }
    { let mut c = z; c[6] = p53 - 1; c[7] = 999; c[8] = 1000; cases.push(c); }   // exactly 2^53 s
    { let mut c = z; c[6] = p53 - 1; c[7] = 999; c[8] = 999; c[9] = 999; cases.push(c); } // 1 ns below
    { let mut c = z; c[9] = 10_000_000_000_000_000_000; cases.push(c); }  // 1e19 ns: valid
    { let mut c = z; c[3] = 1i128 << 120; cases.push(c); }
    { let mut c = z; c[4] = -(1i128 << 126); cases.push(c); }
    for c in cases { check(c, fails); if fails.len() >= 5 { return; } }
    // the documented huge finite double
    let r = catch_unwind(|| Duration::new(F::default(), F::default(), F::default(), F::try_from(1e300).unwrap(), F::default(), F::default(), F::default(), F::default(), F::default(), F::default()).is_ok());
    match r { Err(_) => fails.push(Failure { what: "Duration::new panicked".into(), input: "days=1e300".into(), expected: "RangeError".into(), observed: "panic".into() }),
              Ok(true) => fails.push(Failure { what: "Duration::new validity".into(), input: "days=1e300".into(), expected: "RangeError".into(), observed: "Ok".into() }), _ => {} }
    for _ in 0..(budget / 4) {
        let sg = if rng.next() % 2 == 0 { 1 } else { -1 };
        let mut c = z;
        for k in 0..10 { if rng.next() % 3 == 0 { c[k] = sg * rng.range(0, [4_294_967_300i128, 4_294_967_300, 4_294_967_300, 200_000_000_000, 3_000_000_000_000, 160_000_000_000_000, p53 + 5, p53 * 1000, p53 * 1_000_000, p53 * 1_000_000_000][k]); } }
        if rng.next() % 5 == 0 { let k = (rng.next() % 10) as usize; c[k] = -c[k]; }
        check(c, fails);
        arith(rng, fails);
        if fails.len() >= 5 { return; }
    }
}
