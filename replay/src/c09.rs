use crate::{Failure, Rng};
use temporal_rs::primitive::FiniteF64 as F;
use temporal_rs::Duration;
use std::panic::catch_unwind;

const LIMIT_NS: i128 = 9_007_199_254_740_992 * 1_000_000_000;

/// IsValidDuration from the statement on integral fields given as exact integers
fn valid(f: [i128; 10]) -> bool {
    let pos = f.iter().any(|v| *v > 0); let neg = f.iter().any(|v| *v < 0);
    if pos && neg { return false; }
    if f[0].abs() >= 4_294_967_296 || f[1].abs() >= 4_294_967_296 || f[2].abs() >= 4_294_967_296 { return false; }
    for k in 3..10 { if f[k].abs() > (1i128 << 90) { return false; } }
    let total = (((f[3] * 24 + f[4]) * 60 + f[5]) * 60 + f[6]) * 1_000_000_000 + f[7] * 1_000_000 + f[8] * 1_000 + f[9];
    total.abs() < LIMIT_NS
}

fn check(f: [i128; 10], fails: &mut Vec<Failure>) {
    // only exactly representable integers
    let g: Vec<f64> = f.iter().map(|v| *v as f64).collect();
    if g.iter().zip(f.iter()).any(|(a, b)| (*a as i128) != *b && b.abs() < (1i128 << 100)) { return; }
    let want = valid(f);
    let input = format!("{f:?}");
    let r = catch_unwind(|| {
        let x = |k: usize| F::try_from(g[k]).unwrap();
        Duration::new(x(0), x(1), x(2), x(3), x(4), x(5), x(6), x(7), x(8), x(9)).is_ok()
    });
    match r {
        Err(_) => fails.push(Failure { what: "Duration::new panicked".into(), input, expected: format!("{}", if want { "Ok" } else { "RangeError" }), observed: "panic".into() }),
        Ok(ok) => if ok != want { fails.push(Failure { what: "Duration::new validity".into(), input, expected: format!("{}", if want { "Ok" } else { "RangeError" }), observed: format!("{}", if ok { "Ok" } else { "Err" }) }) },
    }
}

pub fn search(rng: &mut Rng, budget: u64, fails: &mut Vec<Failure>) {
    let z = [0i128; 10];
    let mut cases: Vec<[i128; 10]> = Vec::new();
    for k in 0..3 { for v in [4_294_967_295i128, 4_294_967_296, -4_294_967_295, -4_294_967_296] { let mut c = z; c[k] = v; cases.push(c); } }
    let p53 = 9_007_199_254_740_992i128;
    for (k, unit) in [(3usize, 86_400i128), (4, 3_600), (5, 60), (6, 1)] {
        // last valid / first invalid whole-second totals
        let q = p53 / unit;
        let mut c = z; c[k] = q; cases.push(c); let mut c = z; c[k] = q + 1; cases.push(c); let mut c = z; c[k] = -(q + 1); cases.push(c);
    }
    { let mut c = z; c[6] = p53 - 1; c[7] = 999; c[8] = 1000; cases.push(c); }   // exactly 2^53 s
    { let mut c = z; c[6] = p53 - 1; c[7] = 999; c[8] = 999; c[9] = 999; cases.push(c); } // 1 ns below
    { let mut c = z; c[9] = 10_000_000_000_000_000_000; cases.push(c); }  // 1e19 ns: valid
    { let mut c = z; c[3] = 1i128 << 120; cases.push(c); }
    { let mut c = z; c[4] = -(1i128 << 126); cases.push(c); }
    for c in cases { check(c, fails); if fails.len() >= 5 { return; } }
    // the documented huge finite double
    let r = catch_unwind(|| Duration::new(F::default(), F::default(), F::default(), F::try_from(1e300).unwrap(), F::default(), F::default(), F::default(), F::default(), F::default(), F::default()).is_ok());
    match r { Err(_) => fails.push(Failure { what: "Duration::new panicked".into(), input: "days=1e300".into(), expected: "RangeError".into(), observed: "panic".into() }),
              Ok(true) => fails.push(Failure { what: "Duration::new validity".into(), input: "days=1e300".into(), expected: "RangeError".into(), observed: "Ok".into() }), _ => {} }
    for _ in 0..(budget / 4) {
        let sg = if rng.next() % 2 == 0 { 1 } else { -1 };
        let mut c = z;
        for k in 0..10 { if rng.next() % 3 == 0 { c[k] = sg * rng.range(0, [4_294_967_300i128, 4_294_967_300, 4_294_967_300, 200_000_000_000, 3_000_000_000_000, 160_000_000_000_000, p53 + 5, p53 * 1000, p53 * 1_000_000, p53 * 1_000_000_000][k]); } }
        if rng.next() % 5 == 0 { let k = (rng.next() % 10) as usize; c[k] = -c[k]; }
        check(c, fails);
        if fails.len() >= 5 { return; }
    }
}
