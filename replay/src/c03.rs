//! C03 oracle: no public string entry point panics, whatever text it is given. Valid texts of every grammar are
//! mutated (a character replaced by / inserted as a non-ASCII numeric, a sign, a separator, or removed) and each
//! parser is run under catch_unwind; a panic is the failure, the verdict itself is C12's business.
use crate::{Failure, Rng};
use core::str::FromStr;
use std::panic::catch_unwind;
use temporal_rs::{Duration, Instant, PlainDate, PlainDateTime, PlainMonthDay, PlainTime, PlainYearMonth, TimeZone, UtcOffset};

const SEEDS: &[&str] = &[
    "+05:30", "-0530", "+05", "-23:59:59.123456789", "+01:00:00", "Z", "UTC", "America/New_York", "Etc/GMT+5",
    "2024-02-29T12:34:56.789+05:30[Asia/Kolkata][u-ca=iso8601]", "2024-02-29", "20240229T123456Z", "+275760-09-13T00:00Z",
    "12:34:56.5", "T1234", "2024-02", "02-29", "--02-29", "P1Y2M3W4DT5H6M7.5S", "-PT0.000000001S", "PT1.5H",
    "2020-01-01T00:00+01:00[+01:00]", "2020-01-01T00:00[!u-ca=gregory]", "1970-01-01T00:00:00.000000000-00:00",
];
const POOL: &[char] = &['\u{0660}', '\u{0665}', '\u{ff15}', '\u{00bd}', '\u{00b2}', '\u{2167}', '\u{0967}', '\u{ff1a}', '\u{2212}', '+', '-', ':', '.', ',', '0', '9', '6', 'T', 'Z', '[', ']', '!', '=', 'P', '\u{0}', '\u{10ffff}', ' '];

fn mutate(s: &str, rng: &mut Rng) -> String {
    let mut v: Vec<char> = s.chars().collect();
    for _ in 0..=(rng.next() % 3) {
        let c = POOL[(rng.next() % POOL.len() as u64) as usize];
        let at = if v.is_empty() { 0 } else { (rng.next() % (v.len() as u64 + 1)) as usize };
        match rng.next() % 3 {
            0 if at < v.len() => v[at] = c,
            1 => v.insert(at.min(v.len()), c),
            _ if at < v.len() => { v.remove(at); }
            _ => v.push(c),
        }
    }
    v.into_iter().collect()
}

pub fn search(rng: &mut Rng, budget: u64, fails: &mut Vec<Failure>) {
    for k in 0..budget {
        let base = SEEDS[(k % SEEDS.len() as u64) as usize];
        let text = if k < SEEDS.len() as u64 { base.to_string() } else { mutate(base, rng) };
        macro_rules! run { ($name:literal, $e:expr) => {
            if catch_unwind(|| { let _ = $e; }).is_err() {
                fails.push(Failure { what: format!("{} panicked", $name), input: format!("{:?}", text), expected: "a value or a Type/Range/Syntax error".into(), observed: "panic".into() });
            } } }
        run!("TimeZone::try_from_str", TimeZone::try_from_str(&text));
        run!("UtcOffset::from_str", UtcOffset::from_str(&text));
        run!("Duration::from_str", Duration::from_str(&text));
        run!("Instant::from_str", Instant::from_str(&text));
        run!("PlainDate::from_str", PlainDate::from_str(&text));
        run!("PlainDateTime::from_str", PlainDateTime::from_str(&text));
        run!("PlainTime::from_str", PlainTime::from_str(&text));
        run!("PlainYearMonth::from_str", PlainYearMonth::from_str(&text));
        run!("PlainMonthDay::from_str", PlainMonthDay::from_str(&text));
        run!("ZonedDateTime::from_str", temporal_rs::ZonedDateTime::from_str(&text, temporal_rs::options::Disambiguation::Compatible, temporal_rs::options::OffsetDisambiguation::Reject));
        if fails.len() >= 5 { return; }
    }
}
