//! C03 oracle: no public string entry point panics, whatever text it is given. Valid texts of every grammar are
//! mutated (a character replaced by / inserted as a non-ASCII numeric, a sign, a separator, or removed) and each
//! parser is run under catch_unwind; a panic is the failure, the verdict itself is C12's business.
use crate::{Failure, Rng};
use core::str::FromStr;
use std::panic::catch_unwind;
use temporal_rs::{Duration, Instant, PlainDate, PlainDateTime, PlainMonthDay, PlainTime, PlainYearMonth, TimeZone, UtcOffset};

const SEEDS: &[&str] = &[
    "+05:30", "-0530", "+05", "-23:59:59.123456789", "+01:00:00", "Z", "UTC", "America/New_York", "Etc/GMT+5",
    "2024-02-29T12:34:56.789+05:30[Asia/Kolkata][u-ca=iso8601]", "2024-02-29", "20240229T123456Z", "+275760-09-13T00:00Z",
    "12:34:56.5", "T1234", "2024-02", "02-29", "--02-29", "P1Y2M3W4DT5H6M7.5S", "-PT0.000000001S", "PT1.5H",
    "2020-01-01T00:00+01:00[+01:00]", "2020-01-01T00:00[!u-ca=gregory]", "1970-01-01T00:00:00.000000000-00:00",
];
const POOL: &[char] = &['\u{0660}', '\u{0665}', '\u{ff15}', '\u{00bd}', '\u{00b2}', '\u{2167}', '\u{0967}', '\u{ff1a}', '\u{2212}', '+', '-', ':', '.', ',', '0', '9', '6', 'T', 'Z', '[', ']', '!', '=', 'P', '\u{0}', '\u{10ffff}', ' '];

fn mutate(s: &str, rng: &mut Rng) -> String {
    let mut v: Vec<char> = s.chars().collect();
    for _ in 0..=(rng.next() % 3) {
        let c = POOL[(rng.next() % POOL.len() as u64) as usize];
        let at = if v.is_empty() { 0 } else { (rng.next() % (v.len() as u64 + 1)) as usize };
        match rng.next() % 3 {
            0 if at < v.len() => v[at] = c,
            1 => v.insert(at.min(v.len()), c),
            _ if at < v.len() => { v.remove(at); }
            _ => v.push(c),
        }
    }
    v.into_iter().collect()
}

/// constructors and field records with years anywhere in i32: a RangeError / TypeError, never a panic, never accepted outside the limits
fn huge_years(rng: &mut Rng, fails: &mut Vec<Failure>) {
    use temporal_rs::options::ArithmeticOverflow;
    use temporal_rs::partial::PartialDate;
    use temporal_rs::Calendar;
    let mut years: Vec<i32> = vec![i32::MAX, i32::MIN, 2_000_000_000, -2_000_000_000, 6_000_000, -6_000_000, 1_470_000, -1_470_000, 275_761, -271_822];
    for _ in 0..40 { years.push(rng.range(i32::MIN as i128, i32::MAX as i128) as i32); }
    for y in years {
        if (-271_821..=275_760).contains(&y) { continue; }
        for (m, d) in [(2u8, 29u8), (1, 1), (12, 31), (13, 40), (0, 0)] {
            for ov in [ArithmeticOverflow::Constrain, ArithmeticOverflow::Reject] {
                macro_rules! t { ($name:literal, $e:expr) => {
                    match catch_unwind(|| $e.map(|_| ())) {
                        Err(_) => fails.push(Failure { what: format!("{} panicked", $name), input: format!("year={y} month={m} day={d} overflow={ov:?}"), expected: "RangeError".into(), observed: "panic".into() }),
                        Ok(Ok(())) => fails.push(Failure { what: format!("{} accepted a year outside the limits", $name), input: format!("year={y} month={m} day={d} overflow={ov:?}"), expected: "RangeError".into(), observed: "Ok".into() }),
                        Ok(Err(_)) => {}
                    } } }
                t!("PlainDate::new_with_overflow", PlainDate::new_with_overflow(y, m, d, Calendar::default(), ov));
                t!("PlainDate::try_new", PlainDate::try_new(y, m, d, Calendar::default()));
                t!("PlainDate::new", PlainDate::new(y, m, d, Calendar::default()));
                t!("PlainDateTime::new_with_overflow", PlainDateTime::new_with_overflow(y, m, d, 0, 0, 0, 0, 0, 0, Calendar::default(), ov));
                t!("PlainDateTime::try_new", PlainDateTime::try_new(y, m, d, 0, 0, 0, 0, 0, 0, Calendar::default()));
                t!("PlainYearMonth::new_with_overflow", PlainYearMonth::new_with_overflow(y, m, Some(d), Calendar::default(), ov));
                t!("PlainMonthDay::new_with_overflow", PlainMonthDay::new_with_overflow(m, d, Calendar::default(), ov, Some(y)));
                let mut p = PartialDate::default(); p.year = Some(y); p.month = Some(m); p.day = Some(d);
                t!("PlainDate::from_partial", PlainDate::from_partial(p.clone(), Some(ov)));
                t!("PlainYearMonth::from_partial", PlainYearMonth::from_partial(p.clone(), ov));
                if let Ok(base) = PlainDate::try_new(2020, 2, 29, Calendar::default()) {
                    let mut q = PartialDate::default(); q.year = Some(y);
                    t!("PlainDate::with", base.with(q, Some(ov)));
                }
                if fails.len() >= 5 { return; }
            }
        }
    }
}

/// wall-clock -> instant in named zones far beyond the explicit transition table (POSIX rule evaluation): no panic in any year
fn far_future(rng: &mut Rng, fails: &mut Vec<Failure>) {
    use temporal_rs::options::Disambiguation;
    use temporal_rs::Calendar;
    for tzs in ["America/New_York", "Europe/Berlin", "Australia/Sydney", "America/Sao_Paulo", "Asia/Tokyo", "Africa/Casablanca"] {
        let Ok(tz) = TimeZone::try_from_str(tzs) else { continue };
        let mut years: Vec<i32> = vec![2038, 2040, 2100, 3968, 3969, 3972, 4001, 4969, 4970, 10_000, 100_000, 275_000];
        for _ in 0..60 { years.push(rng.range(2038, 275_700) as i32); }
        for y in years {
            for (m, d) in [(1u8, 1u8), (2, 28), (2, 29), (3, 1), (3, 31), (6, 30), (10, 31), (12, 31)] {
                let Ok(pdt) = PlainDateTime::try_new(y, m, d, 1, 30, 0, 0, 0, 0, Calendar::default()) else { continue };
                if catch_unwind(|| { let _ = pdt.to_zoned_date_time(&tz, Disambiguation::Compatible); }).is_err() {
                    fails.push(Failure { what: "PlainDateTime::to_zoned_date_time panicked".into(), input: format!("{y:04}-{m:02}-{d:02}T01:30 [{tzs}]"), expected: "a value or a RangeError".into(), observed: "panic".into() });
                    if fails.len() >= 5 { return; }
                }
            }
        }
    }
}

pub fn search(rng: &mut Rng, budget: u64, fails: &mut Vec<Failure>) {
    huge_years(rng, fails);
    if fails.is_empty() { far_future(rng, fails); }
    if !fails.is_empty() { return; }
    for k in 0..budget {
        let base = SEEDS[(k % SEEDS.len() as u64) as usize];
        let text = if k < SEEDS.len() as u64 { base.to_string() } else { mutate(base, rng) };
        macro_rules! run { ($name:literal, $e:expr) => {
            if catch_unwind(|| { let _ = $e; }).is_err() {
                fails.push(Failure { what: format!("{} panicked", $name), input: format!("{:?}", text), expected: "a value or a Type/Range/Syntax error".into(), observed: "panic".into() });
            } } }
        run!("TimeZone::try_from_str", TimeZone::try_from_str(&text));
        run!("UtcOffset::from_str", UtcOffset::from_str(&text));
        run!("Duration::from_str", Duration::from_str(&text));
        run!("Instant::from_str", Instant::from_str(&text));
        run!("PlainDate::from_str", PlainDate::from_str(&text));
        run!("PlainDateTime::from_str", PlainDateTime::from_str(&text));
        run!("PlainTime::from_str", PlainTime::from_str(&text));
        run!("PlainYearMonth::from_str", PlainYearMonth::from_str(&text));
        run!("PlainMonthDay::from_str", PlainMonthDay::from_str(&text));
        run!("ZonedDateTime::from_str", temporal_rs::ZonedDateTime::from_str(&text, temporal_rs::options::Disambiguation::Compatible, temporal_rs::options::OffsetDisambiguation::Reject));
        if fails.len() >= 5 { return; }
    }
}
