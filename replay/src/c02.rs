use crate::{Failure, Rng};
use temporal_rs::options::{ArithmeticOverflow};
use temporal_rs::primitive::FiniteF64 as F;
use temporal_rs::{Calendar, Duration, Instant, PlainDate, PlainDateTime};
use std::panic::catch_unwind;

const NS_MAX: i128 = 8_640_000_000_000_000_000_000;

fn dur_days(days: i64, hours: i64) -> Option<Duration> {
    Duration::new(F::default(), F::default(), F::default(), F::try_from(days as f64).ok()?, F::try_from(hours as f64).ok()?, F::default(), F::default(), F::default(), F::default(), F::default()).ok()
}

/// every value an operation returns near the edges of the range can be rebuilt by the checked constructor of its type
pub fn search(rng: &mut Rng, budget: u64, fails: &mut Vec<Failure>) {
    // wall-clock -> zoned at the range edges (shared with the C13 oracle)
    crate::c13::search_edges(fails);
    if fails.len() >= 5 { return; }
    let edges: [(i32, u8, u8); 4] = [(-271821, 4, 19), (-271821, 4, 20), (275760, 9, 13), (275760, 9, 12)];
    for _ in 0..(budget / 200).max(50) {
        let (y, m, d) = edges[(rng.next() % 4) as usize];
        let days = rng.range(-3, 3) as i64;
        let hours = rng.range(-30, 30) as i64;
        let Some(du) = dur_days(days, if days < 0 { -hours.abs() } else { hours.abs() }) else { continue };
        if let Ok(date) = PlainDate::try_new(y, m, d, Calendar::default()) {
            let input = format!("PlainDate({y}-{m}-{d}).add(P{days}D T{hours}H)");
            match catch_unwind(|| date.add(&du, Some(ArithmeticOverflow::Reject))) {
                Ok(Ok(r)) => if PlainDate::try_new(r.iso_year(), r.iso_month(), r.iso_day(), Calendar::default()).is_err() {
                    fails.push(Failure { what: "PlainDate::add returned a date outside the limits".into(), input, expected: "RangeError".into(), observed: format!("{}-{}-{}", r.iso_year(), r.iso_month(), r.iso_day()) }) },
                Ok(Err(_)) => {}
                Err(_) => fails.push(Failure { what: "PlainDate::add panicked".into(), input, expected: "value or RangeError".into(), observed: "panic".into() }),
            }
        }
        for h in [0u8, 12] {
            if let Ok(dt) = PlainDateTime::try_new(y, m, d, h, 0, 0, 0, 0, if h == 0 { 1 } else { 0 }, Calendar::default()) {
                let input = format!("PlainDateTime({y}-{m}-{d}T{h}).add(P{days}D T{hours}H)");
                match catch_unwind(|| dt.add(&du, Some(ArithmeticOverflow::Reject))) {
                    Ok(Ok(r)) => if PlainDateTime::try_new(r.iso_year(), r.iso_month(), r.iso_day(), r.hour(), r.minute(), r.second(), r.millisecond(), r.microsecond(), r.nanosecond(), Calendar::default()).is_err() {
                        fails.push(Failure { what: "PlainDateTime::add returned a date-time outside the limits".into(), input, expected: "RangeError".into(), observed: format!("{}-{}-{}T{}", r.iso_year(), r.iso_month(), r.iso_day(), r.hour()) }) },
                    Ok(Err(_)) => {}
                    Err(_) => fails.push(Failure { what: "PlainDateTime::add panicked".into(), input, expected: "value or RangeError".into(), observed: "panic".into() }),
                }
            }
        }
        let base = if rng.next() % 2 == 0 { NS_MAX } else { -NS_MAX } - rng.range(-5, 5) * 3_600_000_000_000;
        if let (Ok(i), Some(dh)) = (Instant::try_new(base), dur_days(0, hours)) {
            let input = format!("Instant({base}).add(PT{hours}H)");
            match catch_unwind(|| i.add(dh)) {
                Ok(Ok(r)) => { let v = r.epoch_nanoseconds().as_i128(); if v.abs() > NS_MAX || v != base + hours as i128 * 3_600_000_000_000 {
                    fails.push(Failure { what: "Instant::add result".into(), input, expected: format!("{}", base + hours as i128 * 3_600_000_000_000), observed: format!("{v}") }) } }
                Ok(Err(_)) => if (base + hours as i128 * 3_600_000_000_000).abs() <= NS_MAX { fails.push(Failure { what: "Instant::add refused an in-range result".into(), input, expected: "value".into(), observed: "Err".into() }) },
                Err(_) => fails.push(Failure { what: "Instant::add panicked".into(), input, expected: "value or RangeError".into(), observed: "panic".into() }),
            }
        }
        if fails.len() >= 5 { return; }
    }
}
