use crate::{oracle, oracle::Mode, Failure, Rng};
use temporal_rs::options::{DifferenceSettings, RoundingMode, RoundingOptions, RoundingIncrement, Unit};
use temporal_rs::{Instant, PlainTime};
use std::panic::catch_unwind;

fn to_mode(m: Mode) -> RoundingMode {
    match m {
        Mode::Ceil => RoundingMode::Ceil, Mode::Floor => RoundingMode::Floor, Mode::Expand => RoundingMode::Expand, Mode::Trunc => RoundingMode::Trunc,
        Mode::HalfCeil => RoundingMode::HalfCeil, Mode::HalfFloor => RoundingMode::HalfFloor, Mode::HalfExpand => RoundingMode::HalfExpand,
        Mode::HalfTrunc => RoundingMode::HalfTrunc, Mode::HalfEven => RoundingMode::HalfEven,
    }
}
const UNITS: [(Unit, i128, u32); 6] = [
    (Unit::Nanosecond, 1, 1000), (Unit::Microsecond, 1_000, 1000), (Unit::Millisecond, 1_000_000, 1000),
    (Unit::Second, 1_000_000_000, 60), (Unit::Minute, 60_000_000_000, 60), (Unit::Hour, 3_600_000_000_000, 24),
];
const NS_DAY: i128 = 86_400_000_000_000;

fn time_of(ns: i128) -> PlainTime {
    let h = ns / 3_600_000_000_000; let mi = ns / 60_000_000_000 % 60; let s = ns / 1_000_000_000 % 60;
    PlainTime::try_new(h as u8, mi as u8, s as u8, (ns / 1_000_000 % 1000) as u16, (ns / 1000 % 1000) as u16, (ns % 1000) as u16).unwrap()
}
fn ns_of(t: &PlainTime) -> i128 {
    ((((t.hour() as i128 * 60 + t.minute() as i128) * 60 + t.second() as i128) * 1000 + t.millisecond() as i128) * 1000 + t.microsecond() as i128) * 1000 + t.nanosecond() as i128
}

fn check_time(ns: i128, unit: (Unit, i128, u32), inc: u32, mode: Mode, fails: &mut Vec<Failure>) {
    let t = time_of(ns);
    // RoundTime: the quantity that is rounded is the time counted from the start of the ENCLOSING unit (the whole time of
    // day for hours), so a tie under halfEven goes to the even multiple within that unit - as ECMAScript defines it
    let sup: i128 = match unit.0 { Unit::Nanosecond => 1_000, Unit::Microsecond => 1_000_000, Unit::Millisecond => 1_000_000_000, Unit::Second => 60_000_000_000, Unit::Minute => 3_600_000_000_000, _ => NS_DAY };
    let expected = (ns - ns % sup + oracle::round(ns % sup, unit.1 * inc as i128, mode)).rem_euclid(NS_DAY);
    let r = catch_unwind(|| t.round(unit.0, Some(inc as f64), Some(to_mode(mode))));
    match r {
        Ok(Ok(got)) => {
            if ns_of(&got) != expected {
                fails.push(Failure { what: "PlainTime::round".into(), input: format!("time_ns={ns} unit={:?} increment={inc} mode={:?}", unit.0, mode), expected: format!("{expected}"), observed: format!("{}", ns_of(&got)) });
            }
        }
        other => fails.push(Failure { what: "PlainTime::round failed".into(), input: format!("time_ns={ns} unit={:?} increment={inc} mode={:?}", unit.0, mode), expected: format!("{expected}"), observed: format!("{:?}", other.map(|x| x.map(|_| ()))) }),
    }
}

fn check_instant(ns: i128, unit: (Unit, i128, u32), inc: u32, mode: Mode, fails: &mut Vec<Failure>) {
    let Ok(inst) = Instant::try_new(ns) else { return };
    let expected = oracle::round(ns, unit.1 * inc as i128, mode);
    let mut o = RoundingOptions::default();
    o.largest_unit = None;
    o.smallest_unit = Some(unit.0);
    o.rounding_mode = Some(to_mode(mode));
    o.increment = RoundingIncrement::try_new(inc).ok();
    let r = catch_unwind(|| inst.round(o));
    match r {
        Ok(Ok(got)) => {
            if got.epoch_nanoseconds().as_i128() != expected {
                fails.push(Failure { what: "Instant::round".into(), input: format!("epoch_ns={ns} unit={:?} increment={inc} mode={:?}", unit.0, mode), expected: format!("{expected}"), observed: format!("{}", got.epoch_nanoseconds().as_i128()) });
            }
        }
        Ok(Err(_)) => {
            if expected.abs() <= 8_640_000_000_000_000_000_000 {
                fails.push(Failure { what: "Instant::round error".into(), input: format!("epoch_ns={ns} unit={:?} increment={inc} mode={:?}", unit.0, mode), expected: format!("{expected}"), observed: "Err".into() });
            }
        }
        Err(_) => fails.push(Failure { what: "Instant::round panicked".into(), input: format!("epoch_ns={ns} unit={:?} increment={inc} mode={:?}", unit.0, mode), expected: format!("{expected}"), observed: "panic".into() }),
    }
}

/// PlainTime until / since with a smallest unit, increment and mode (C07 last sentence): until rounds other - this with the
/// mode, since rounds this - other with it (the mode is applied as if negated to the negated difference)
fn check_time_diff(a: i128, b: i128, unit: (Unit, i128, u32), inc: u32, mode: Mode, fails: &mut Vec<Failure>) {
    let (ta, tb) = (time_of(a), time_of(b));
    let step = unit.1 * inc as i128;
    for since in [false, true] {
        let expected = if since { oracle::round(a - b, step, mode) } else { oracle::round(b - a, step, mode) };
        let mut o = DifferenceSettings::default();
        o.smallest_unit = Some(unit.0);
        o.rounding_mode = Some(to_mode(mode));
        o.increment = RoundingIncrement::try_new(inc).ok();
        let r = catch_unwind(|| if since { ta.since(&tb, o) } else { ta.until(&tb, o) });
        let input = format!("PlainTime(ns={a}).{}(PlainTime(ns={b})) unit={:?} increment={inc} mode={:?}", if since { "since" } else { "until" }, unit.0, mode);
        match r {
            Ok(Ok(d)) => {
                let got = ((((d.hours().as_inner() as i128 * 60 + d.minutes().as_inner() as i128) * 60 + d.seconds().as_inner() as i128) * 1000 + d.milliseconds().as_inner() as i128) * 1000 + d.microseconds().as_inner() as i128) * 1000 + d.nanoseconds().as_inner() as i128;
                if got != expected { fails.push(Failure { what: "PlainTime until/since rounding".into(), input, expected: format!("{expected}"), observed: format!("{got}") }); }
            }
            Ok(Err(e)) => fails.push(Failure { what: "PlainTime until/since failed".into(), input, expected: format!("{expected}"), observed: format!("{e:?}") }),
            Err(_) => fails.push(Failure { what: "PlainTime until/since panicked".into(), input, expected: format!("{expected}"), observed: "panic".into() }),
        }
    }
}

fn divisors(max: u32) -> Vec<u32> { (1..max).filter(|d| max % d == 0).collect() }

pub fn search(rng: &mut Rng, budget: u64, fails: &mut Vec<Failure>) {
    // deterministic part: every unit x every admissible increment x every mode around midpoints
    for unit in UNITS {
        for inc in divisors(unit.2) {
            for mode in oracle::MODES {
                let step = unit.1 * inc as i128;
                for base in [0i128, step, 7 * step, NS_DAY - 2 * step] {
                    for off in [0, 1, step / 2 - 1, step / 2, step / 2 + 1, step - 1] {
                        let ns = base + off;
                        if ns >= 0 && ns < NS_DAY { check_time(ns, unit, inc, mode, fails); }
                        if ns >= 0 && ns < NS_DAY && base == 7 * step { check_time_diff(3 * step, ns, unit, inc, mode, fails); check_time_diff(ns, 3 * step, unit, inc, mode, fails); }
                        if fails.len() >= 5 { return; }
                    }
                }
            }
        }
    }
    for _ in 0..(budget / 4) {
        let unit = rng.pick(&UNITS);
        let ds = divisors(unit.2);
        let inc = rng.pick(&ds);
        let mode = rng.pick(&oracle::MODES);
        let ns = rng.range(0, NS_DAY - 1);
        check_time(ns, unit, inc, mode, fails);
        check_time_diff(ns, rng.range(0, NS_DAY - 1), unit, inc, mode, fails);
        let ens = rng.range(-8_640_000_000_000_000_000_000, 8_640_000_000_000_000_000_000);
        // instants: increment must divide the day length
        let day_units = NS_DAY / unit.1;
        let inc2 = { let c: Vec<u32> = (1..=1000u32).filter(|d| day_units % (*d as i128) == 0).collect(); rng.pick(&c) };
        check_instant(ens, unit, inc2, mode, fails);
        check_instant((ens % 10_000_000).abs() * if ens < 0 { -1 } else { 1 }, unit, inc2, mode, fails);
        if fails.len() >= 5 { return; }
    }
}
