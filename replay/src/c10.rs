use crate::{Failure, Rng};
use temporal_rs::options::{DifferenceSettings, RoundingIncrement, RoundingMode, Unit};
use temporal_rs::{Calendar, Instant, PlainDate, PlainDateTime, PlainTime};
use std::panic::catch_unwind;

const UNITS: [Unit; 11] = [Unit::Auto, Unit::Nanosecond, Unit::Microsecond, Unit::Millisecond, Unit::Second, Unit::Minute, Unit::Hour, Unit::Day, Unit::Week, Unit::Month, Unit::Year];
fn rank(u: Unit) -> u8 { UNITS.iter().position(|x| *x == u).unwrap() as u8 }
fn in_group(g: u8, u: Unit) -> bool { let r = rank(u); match g { 0 => r >= 7, 1 => (1..=6).contains(&r), _ => r >= 1 } }
fn max_inc(u: Unit) -> Option<u64> { match u { Unit::Hour => Some(24), Unit::Minute | Unit::Second => Some(60), Unit::Millisecond | Unit::Microsecond | Unit::Nanosecond => Some(1000), _ => None } }

/// GetDifferenceSettings from the statement: is the combination allowed?
pub fn allowed(largest: Option<Unit>, smallest: Option<Unit>, inc: u32, g: u8, fb_largest: Unit, fb_smallest: Unit) -> bool {
    if let Some(l) = largest { if rank(l) != 0 && !in_group(g, l) { return false; } }
    if let Some(s) = smallest { if !in_group(g, s) { return false; } }
    let s = smallest.unwrap_or(fb_smallest);
    let dl = if rank(fb_largest) > rank(s) { fb_largest } else { s };
    let l = match largest { None => dl, Some(u) => if rank(u) == 0 { dl } else { u } };
    if rank(l) < rank(s) { return false; }
    if let Some(max) = max_inc(s) { if inc as u64 >= max || max % inc as u64 != 0 { return false; } }
    true
}

pub fn search(_rng: &mut Rng, _budget: u64, fails: &mut Vec<Failure>) {
    let d1 = PlainDate::try_new(2020, 1, 31, Calendar::default()).unwrap();
    let d2 = PlainDate::try_new(2023, 7, 2, Calendar::default()).unwrap();
    let t1 = PlainTime::try_new(1, 2, 3, 4, 5, 6).unwrap();
    let t2 = PlainTime::try_new(13, 42, 7, 100, 200, 300).unwrap();
    let dt1 = PlainDateTime::try_new(2020, 1, 31, 1, 2, 3, 4, 5, 6, Calendar::default()).unwrap();
    let dt2 = PlainDateTime::try_new(2023, 7, 2, 13, 42, 7, 100, 200, 300, Calendar::default()).unwrap();
    let i1 = Instant::try_new(1_000_000_000_123_456_789).unwrap();
    let i2 = Instant::try_new(1_700_000_000_987_654_321).unwrap();
    let opts: Vec<Option<Unit>> = std::iter::once(None).chain(UNITS.iter().map(|u| Some(*u))).collect();
    for &largest in &opts {
        for &smallest in &opts {
            for inc in [1u32, 2, 5, 7, 12, 24, 30, 60, 100, 1000] {
                for since in [false, true] {
                    let mut s = DifferenceSettings::default();
                    s.largest_unit = largest; s.smallest_unit = smallest; s.rounding_mode = Some(RoundingMode::HalfExpand);
                    s.increment = Some(RoundingIncrement::try_new(inc).unwrap());
                    let input = format!("largest={largest:?} smallest={smallest:?} increment={inc} since={since}");
                    let cases: [(&str, u8, Unit, Unit, Box<dyn Fn() -> Result<bool, ()> + std::panic::UnwindSafe>); 4] = [
                        ("PlainDate", 0, Unit::Day, Unit::Day, { let (a, b) = (d1.clone(), d2.clone()); Box::new(move || Ok(if since { a.since(&b, s) } else { a.until(&b, s) }.is_ok())) }),
                        ("PlainTime", 1, Unit::Hour, Unit::Nanosecond, Box::new(move || Ok(if since { t1.since(&t2, s) } else { t1.until(&t2, s) }.is_ok()))),
                        ("PlainDateTime", 2, Unit::Day, Unit::Nanosecond, { let (a, b) = (dt1.clone(), dt2.clone()); Box::new(move || Ok(if since { a.since(&b, s) } else { a.until(&b, s) }.is_ok())) }),
                        ("Instant", 1, Unit::Second, Unit::Nanosecond, Box::new(move || Ok(if since { i1.since(&i2, s) } else { i1.until(&i2, s) }.is_ok()))),
                    ];
                    for (name, g, fl, fs, f) in cases {
                        let want = allowed(largest, smallest, inc, g, fl, fs);
                        match catch_unwind(f) {
                            Err(_) => fails.push(Failure { what: format!("{name} until/since panicked"), input: input.clone(), expected: format!("{}", if want { "Ok" } else { "RangeError" }), observed: "panic".into() }),
                            Ok(Ok(ok)) => if ok != want {
                                fails.push(Failure { what: format!("{name} until/since option validation"), input: input.clone(), expected: format!("{}", if want { "Ok" } else { "RangeError" }), observed: format!("{}", if ok { "Ok" } else { "Err" }) });
                            },
                            Ok(Err(())) => {}
                        }
                        if fails.len() >= 5 { return; }
                    }
                }
            }
        }
    }
}
