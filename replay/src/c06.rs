use crate::{oracle, Failure, Rng};
use temporal_rs::options::{DifferenceSettings, Unit};
use temporal_rs::primitive::FiniteF64 as F;
use temporal_rs::{Calendar, Duration, Instant, PlainTime, TimeZone, ZonedDateTime};
use std::panic::catch_unwind;

const NS_DAY: i128 = 86_400_000_000_000;
const NS_MAX: i128 = 8_640_000_000_000_000_000_000;

fn time_of(ns: i128) -> PlainTime {
    PlainTime::try_new((ns / 3_600_000_000_000) as u8, (ns / 60_000_000_000 % 60) as u8, (ns / 1_000_000_000 % 60) as u8, (ns / 1_000_000 % 1000) as u16, (ns / 1000 % 1000) as u16, (ns % 1000) as u16).unwrap()
}
fn ns_of(t: &PlainTime) -> i128 {
    ((((t.hour() as i128 * 60 + t.minute() as i128) * 60 + t.second() as i128) * 1000 + t.millisecond() as i128) * 1000 + t.microsecond() as i128) * 1000 + t.nanosecond() as i128
}
/// fields (h, mi, s, ms, us, ns) as exact integers that are exactly representable doubles
fn dur(f: [i64; 6]) -> Option<Duration> {
    let g = |v: i64| F::try_from(v as f64).ok();
    Duration::new(F::default(), F::default(), F::default(), F::default(), g(f[0])?, g(f[1])?, g(f[2])?, g(f[3])?, g(f[4])?, g(f[5])?).ok()
}
fn total(f: [i64; 6]) -> i128 {
    f[0] as i128 * 3_600_000_000_000 + f[1] as i128 * 60_000_000_000 + f[2] as i128 * 1_000_000_000 + f[3] as i128 * 1_000_000 + f[4] as i128 * 1000 + f[5] as i128
}

fn check_time(ns: i128, f: [i64; 6], fails: &mut Vec<Failure>) {
    let Some(d) = dur(f) else { return };
    let t = time_of(ns);
    for sub in [false, true] {
        let want = (ns + if sub { -total(f) } else { total(f) }).rem_euclid(NS_DAY);
        let input = format!("time_ns={ns} {} fields(h,mi,s,ms,us,ns)={f:?}", if sub { "subtract" } else { "add" });
        match catch_unwind(|| if sub { t.subtract(&d) } else { t.add(&d) }) {
            Ok(Ok(r)) => if ns_of(&r) != want { fails.push(Failure { what: "PlainTime add/subtract".into(), input, expected: format!("{want}"), observed: format!("{}", ns_of(&r)) }) },
            other => fails.push(Failure { what: "PlainTime add/subtract failed".into(), input, expected: format!("{want}"), observed: format!("{:?}", other.map(|x| x.map(|_| ()))) }),
        }
    }
}

fn check_instant(ns: i128, f: [i64; 6], fails: &mut Vec<Failure>) {
    let Some(d) = dur(f) else { return };
    let Ok(i) = Instant::try_new(ns) else { return };
    // epoch milliseconds = floor
    if i.epoch_milliseconds() as i128 != ns.div_euclid(1_000_000) {
        fails.push(Failure { what: "Instant::epoch_milliseconds".into(), input: format!("epoch_ns={ns}"), expected: format!("{}", ns.div_euclid(1_000_000)), observed: format!("{}", i.epoch_milliseconds()) });
    }
    for sub in [false, true] {
        let want = ns + if sub { -total(f) } else { total(f) };
        let input = format!("epoch_ns={ns} {} fields={f:?}", if sub { "subtract" } else { "add" });
        match catch_unwind(|| if sub { i.subtract(d) } else { i.add(d) }) {
            Ok(Ok(r)) => if r.epoch_nanoseconds().as_i128() != want { fails.push(Failure { what: "Instant add/subtract".into(), input, expected: format!("{want}"), observed: format!("{}", r.epoch_nanoseconds().as_i128()) }) },
            Ok(Err(_)) => if want.abs() <= NS_MAX { fails.push(Failure { what: "Instant add/subtract error".into(), input, expected: format!("{want}"), observed: "Err".into() }) },
            Err(_) => fails.push(Failure { what: "Instant add/subtract panicked".into(), input, expected: format!("{want}"), observed: "panic".into() }),
        }
    }
    // instants (and wall-clock times) refuse calendar and day units: a non-zero years / months / weeks / days field is an error
    {
        use temporal_rs::primitive::FiniteF64 as F;
        let z0 = F::default();
        for (k, v) in [(0usize, 1.0f64), (1, -2.0), (2, 3.0), (3, 1.0), (3, -40.0)] {
            let mut date = [z0; 4];
            date[k] = F::try_from(v).unwrap();
            let hrs = F::try_from(if v < 0.0 { -3.0 } else { 3.0 }).unwrap();
            let Ok(dd) = Duration::new(date[0], date[1], date[2], date[3], hrs, z0, z0, z0, z0, z0) else { continue };
            for sub in [false, true] {
                let input = format!("epoch_ns={ns} {} a duration with date field #{k} = {v} and 3 hours", if sub { "subtract" } else { "add" });
                match catch_unwind(|| if sub { i.subtract(dd) } else { i.add(dd) }) {
                    Ok(Ok(r)) => fails.push(Failure { what: "Instant add/subtract accepted a calendar / day unit".into(), input, expected: "RangeError".into(), observed: format!("{}", r.epoch_nanoseconds().as_i128()) }),
                    Ok(Err(_)) => {}
                    Err(_) => fails.push(Failure { what: "Instant add/subtract panicked".into(), input, expected: "RangeError".into(), observed: "panic".into() }),
                }
            }
        }
    }
    // instant -> UTC wall clock (also C01: instant and date-time determine each other)
    if let Ok(tz) = TimeZone::try_from_str("UTC") {
        if let Ok(Ok(z)) = catch_unwind(|| ZonedDateTime::try_new(ns, Calendar::default(), tz)) {
            if let Ok(Ok(p)) = catch_unwind(|| z.to_plain_datetime()) {
                let day = ns.div_euclid(NS_DAY); let tod = ns.rem_euclid(NS_DAY);
                let (y, m, dd) = oracle::civil_from_days(day as i64);
                let got = (p.iso_year() as i64, p.iso_month() as i64, p.iso_day() as i64, ((((p.hour() as i128 * 60 + p.minute() as i128) * 60 + p.second() as i128) * 1000 + p.millisecond() as i128) * 1000 + p.microsecond() as i128) * 1000 + p.nanosecond() as i128);
                if got != (y, m, dd, tod) {
                    fails.push(Failure { what: "instant -> UTC date-time".into(), input: format!("epoch_ns={ns}"), expected: format!("{:?}", (y, m, dd, tod)), observed: format!("{got:?}") });
                }
            }
        }
    }
}

fn check_until(a: i128, b: i128, largest: Unit, fails: &mut Vec<Failure>) {
    let (ta, tb) = (time_of(a), time_of(b));
    let mut s = DifferenceSettings::default();
    s.largest_unit = Some(largest);
    if let Ok(Ok(d)) = catch_unwind(|| ta.until(&tb, s)) {
        let f = [d.hours().as_inner(), d.minutes().as_inner(), d.seconds().as_inner(), d.milliseconds().as_inner(), d.microseconds().as_inner(), d.nanoseconds().as_inner()];
        let tot = f[0] as i128 * 3_600_000_000_000 + f[1] as i128 * 60_000_000_000 + f[2] as i128 * 1_000_000_000 + f[3] as i128 * 1_000_000 + f[4] as i128 * 1000 + f[5] as i128;
        if tot != b - a { fails.push(Failure { what: "PlainTime::until total".into(), input: format!("{a} until {b} largest={largest:?}"), expected: format!("{}", b - a), observed: format!("{tot} {f:?}") }); }
    }
}

/// Instant until / since: the exact difference for every pair of representable instants (up to 2 x 8.64e21 ns apart)
fn check_instant_until(a: i128, b: i128, largest: Unit, fails: &mut Vec<Failure>) {
    let (Ok(ia), Ok(ib)) = (Instant::try_new(a), Instant::try_new(b)) else { return };
    for since in [false, true] {
        let mut s = DifferenceSettings::default();
        s.largest_unit = Some(largest);
        let want = if since { a - b } else { b - a };
        let input = format!("Instant({a}).{}(Instant({b}), largest={largest:?})", if since { "since" } else { "until" });
        match catch_unwind(|| if since { ia.since(&ib, s) } else { ia.until(&ib, s) }) {
            Ok(Ok(d)) => {
                let f = [d.hours().as_inner(), d.minutes().as_inner(), d.seconds().as_inner(), d.milliseconds().as_inner(), d.microseconds().as_inner(), d.nanoseconds().as_inner()];
                // fields above 2^53 are not exactly representable: compare only when the top field is
                let tot = f[0] as i128 * 3_600_000_000_000 + f[1] as i128 * 60_000_000_000 + f[2] as i128 * 1_000_000_000 + f[3] as i128 * 1_000_000 + f[4] as i128 * 1000 + f[5] as i128;
                let top_exact = f.iter().all(|x| x.abs() < 9_007_199_254_740_992.0);
                if top_exact && tot != want { fails.push(Failure { what: "Instant until/since total".into(), input, expected: format!("{want}"), observed: format!("{tot} {f:?}") }); }
            }
            Ok(Err(_)) => fails.push(Failure { what: "Instant until/since refused two representable instants".into(), input, expected: format!("{want}"), observed: "Err".into() }),
            Err(_) => fails.push(Failure { what: "Instant until/since panicked".into(), input, expected: format!("{want}"), observed: "panic".into() }),
        }
    }
}

pub fn search(rng: &mut Rng, budget: u64, fails: &mut Vec<Failure>) {
    for (a, b) in [(-NS_MAX, NS_MAX), (NS_MAX, -NS_MAX), (-5_184_000_000_000_000_000_000i128, 3_456_000_000_000_000_000_000 + 3_600_000_000_000), (0, NS_MAX), (-NS_MAX, 1)] {
        for lu in [Unit::Hour, Unit::Second] { check_instant_until(a, b, lu, fails); }
        if fails.len() >= 5 { return; }
    }
    let borrow: [[i64; 6]; 8] = [[0, 0, 0, 0, 1, 0], [0, 0, 0, 0, 0, 1], [0, 0, 0, 1, 0, 0], [0, 0, 1, 0, 0, 0], [0, 1, 0, 0, 0, 0], [1, 0, 0, 0, 0, 0], [0, 0, 0, 0, 1001, 1], [25, 61, 61, 1001, 1001, 1001]];
    for ns in [0i128, 1, 999, 1000, 43_200_000_000_000, NS_DAY - 1] {
        for f in borrow { check_time(ns, f, fails); if fails.len() >= 5 { return; } }
    }
    for ns in [-1i128, -999_999, -1_000_000, -1_000_001, -NS_DAY - 1, 1, 999_999, -NS_MAX, NS_MAX, -NS_MAX + 1] {
        for f in borrow { check_instant(ns, f, fails); if fails.len() >= 5 { return; } }
    }
    // fields beyond the i64 range (still valid durations: the total stays below 2^53 s); powers of two times powers of
    // ten chosen to be exactly representable doubles
    for (idx, v) in [(5usize, 100_000_000_000_000_000_000i128), (5, 1i128 << 70), (4, 1i128 << 64), (5, -(1i128 << 66)), (3, 1i128 << 60)] {
        let g = |x: i128| F::try_from(x as f64).ok();
        let mut fl = [0i128; 6]; fl[idx] = v;
        let (Some(a), Some(b), Some(c), Some(d4), Some(e), Some(f5)) = (g(fl[0]), g(fl[1]), g(fl[2]), g(fl[3]), g(fl[4]), g(fl[5])) else { continue };
        let Ok(d) = Duration::new(F::default(), F::default(), F::default(), F::default(), a, b, c, d4, e, f5) else { continue };
        let tot = fl[0] * 3_600_000_000_000 + fl[1] * 60_000_000_000 + fl[2] * 1_000_000_000 + fl[3] * 1_000_000 + fl[4] * 1000 + fl[5];
        for ns in [0i128, 43_200_000_000_001] {
            let t = time_of(ns);
            for sub in [false, true] {
                let want = (ns + if sub { -tot } else { tot }).rem_euclid(NS_DAY);
                let input = format!("time_ns={ns} {} fields(h,mi,s,ms,us,ns)={fl:?}", if sub { "subtract" } else { "add" });
                match catch_unwind(|| if sub { t.subtract(&d) } else { t.add(&d) }) {
                    Ok(Ok(r)) => if ns_of(&r) != want { fails.push(Failure { what: "PlainTime add/subtract (field beyond i64)".into(), input, expected: format!("{want}"), observed: format!("{}", ns_of(&r)) }) },
                    other => fails.push(Failure { what: "PlainTime add/subtract failed".into(), input, expected: format!("{want}"), observed: format!("{:?}", other.map(|x| x.map(|_| ()))) }),
                }
            }
        }
        if fails.len() >= 5 { return; }
    }
    for _ in 0..(budget / 10) {
        let ns = rng.range(0, NS_DAY - 1);
        let mag = rng.pick(&[10i128, 1000, 100_000, 4_000_000_000_000_000]);
        let f = [rng.range(-mag, mag) as i64 / 1000, rng.range(-mag, mag) as i64 / 100, rng.range(-mag, mag) as i64, rng.range(-mag, mag) as i64, rng.range(-mag, mag) as i64, rng.range(-mag, mag) as i64];
        check_time(ns, f, fails);
        let e = if rng.next() % 2 == 0 { rng.range(-NS_MAX, NS_MAX) } else { rng.range(-10_000_000_000, 10_000_000_000) };
        check_instant(e, f, fails);
        check_until(ns, rng.range(0, NS_DAY - 1), rng.pick(&[Unit::Hour, Unit::Minute, Unit::Second, Unit::Millisecond, Unit::Microsecond, Unit::Nanosecond]), fails);
        if fails.len() >= 5 { return; }
    }
}
