// S-GREG: the proleptic Gregorian calendar, written from the rule only.
//   leap year: divisible by 4 and (not by 100 or by 400); month lengths 31,28/29,31,30,...
//   days_from_civil(y,m,d): number of days from 1970-01-01 to y-m-d, built by *counting* leap years
//   before y and summing month lengths - no magic constants.
pub open spec fn is_leap(y: int) -> bool { y % 4 == 0 && (y % 100 != 0 || y % 400 == 0) }

pub open spec fn diy(y: int) -> int { if is_leap(y) { 366 } else { 365 } }

pub open spec fn dim(y: int, m: int) -> int {
    if m == 2 { if is_leap(y) { 29 } else { 28 } }
    else if m == 4 || m == 6 || m == 9 || m == 11 { 30 }
    else { 31 }
}

/// days from 0000-01-01 to y-01-01: 365 per year plus one per leap year in [0, y)
pub open spec fn days_before_year(y: int) -> int {
    365 * y + (y + 3) / 4 - (y + 99) / 100 + (y + 399) / 400
}

/// days from Jan 1 to the first of month m in a non-leap year (sum of the month lengths before m)
pub open spec fn cum(m: int) -> int {
    if m <= 1 { 0 } else if m == 2 { 31 } else if m == 3 { 59 } else if m == 4 { 90 } else if m == 5 { 120 }
    else if m == 6 { 151 } else if m == 7 { 181 } else if m == 8 { 212 } else if m == 9 { 243 }
    else if m == 10 { 273 } else if m == 11 { 304 } else { 334 }
}

pub open spec fn leap_adj(y: int, m: int) -> int { if m > 2 && is_leap(y) { 1 } else { 0 } }

/// 719528 = days_before_year(1970)
pub open spec fn days_from_civil(y: int, m: int, d: int) -> int {
    days_before_year(y) + cum(m) + leap_adj(y, m) + (d - 1) - 719528
}

pub open spec fn valid_ymd(y: int, m: int, d: int) -> bool {
    1 <= m <= 12 && 1 <= d <= dim(y, m)
}

/// lexicographic order on (y, m, d)
pub open spec fn ymd_lt(y1: int, m1: int, d1: int, y2: int, m2: int, d2: int) -> bool {
    y1 < y2 || (y1 == y2 && (m1 < m2 || (m1 == m2 && d1 < d2)))
}

/// month arithmetic used all over Temporal: (y, m) with any integer m, 1-based -> canonical (y', m' in 1..=12)
pub open spec fn ym_norm_y(y: int, m: int) -> int { y + (m - 1) / 12 }
pub open spec fn ym_norm_m(y: int, m: int) -> int { (m - 1) % 12 + 1 }

pub const MIN_DAY: i32 = -100_000_001;
pub const MAX_DAY: i32 = 100_000_000;

// ---------------------------------------------------------------------------------------------
// lemmas about the rule itself

pub proof fn lemma_cum_dim(y: int, m: int)
    requires 1 <= m <= 11,
    ensures cum(m + 1) + leap_adj(y, m + 1) == cum(m) + leap_adj(y, m) + dim(y, m),
{
}

pub proof fn lemma_dby_step(y: int)
    ensures days_before_year(y + 1) == days_before_year(y) + diy(y),
{
    lemma_div_succ(y, 4);
    lemma_div_succ(y, 100);
    lemma_div_succ(y, 400);
    lemma_mod_chain(y);
}

pub proof fn lemma_div_succ(y: int, k: int)
    requires k == 4 || k == 100 || k == 400,
    ensures (y + k) / k == (y + k - 1) / k + (if y % k == 0 { 1int } else { 0int }),
{
}

pub proof fn lemma_mod_chain(y: int)
    ensures y % 400 == 0 ==> y % 100 == 0, y % 100 == 0 ==> y % 4 == 0,
{
}

/// year length: Dec 31 + 1 = Jan 1 of next year
pub proof fn lemma_year_roll(y: int)
    ensures days_from_civil(y + 1, 1, 1) == days_from_civil(y, 12, 31) + 1,
            days_from_civil(y + 1, 1, 1) == days_from_civil(y, 1, 1) + diy(y),
{
    lemma_dby_step(y);
}

/// month roll-over: last day of month m + 1 = first of month m+1
pub proof fn lemma_month_roll(y: int, m: int)
    requires 1 <= m <= 11,
    ensures days_from_civil(y, m + 1, 1) == days_from_civil(y, m, dim(y, m)) + 1,
{
    lemma_cum_dim(y, m);
}

pub proof fn lemma_dby_mono(y1: int, y2: int)
    requires y1 <= y2,
    ensures days_before_year(y2) - days_before_year(y1) >= 365 * (y2 - y1),
    decreases y2 - y1,
{
    if y1 < y2 {
        lemma_dby_mono(y1, y2 - 1);
        lemma_dby_step(y2 - 1);
    }
}

/// strict monotonicity: lexicographic order on valid dates == order of day numbers
pub proof fn lemma_dfc_mono(y1: int, m1: int, d1: int, y2: int, m2: int, d2: int)
    requires valid_ymd(y1, m1, d1), valid_ymd(y2, m2, d2), ymd_lt(y1, m1, d1, y2, m2, d2),
    ensures days_from_civil(y1, m1, d1) < days_from_civil(y2, m2, d2),
{
    if y1 < y2 {
        lemma_dby_mono(y1 + 1, y2);
        lemma_dby_step(y1);
        // day-of-year of (m1,d1) is < diy(y1)
        lemma_doy_bound(y1, m1, d1);
        lemma_doy_bound(y2, m2, d2);
    } else if m1 < m2 {
        lemma_cum_mono(y1, m1, m2);
    }
}

pub proof fn lemma_doy_bound(y: int, m: int, d: int)
    requires valid_ymd(y, m, d),
    ensures 0 <= cum(m) + leap_adj(y, m) + (d - 1) < diy(y),
{
}

pub proof fn lemma_cum_mono(y: int, m1: int, m2: int)
    requires 1 <= m1 < m2 <= 12,
    ensures cum(m1) + leap_adj(y, m1) + dim(y, m1) <= cum(m2) + leap_adj(y, m2),
{
}

/// injectivity (uniqueness of the date for a day number)
pub proof fn lemma_dfc_inj(y1: int, m1: int, d1: int, y2: int, m2: int, d2: int)
    requires valid_ymd(y1, m1, d1), valid_ymd(y2, m2, d2),
             days_from_civil(y1, m1, d1) == days_from_civil(y2, m2, d2),
    ensures y1 == y2, m1 == m2, d1 == d2,
{
    if ymd_lt(y1, m1, d1, y2, m2, d2) { lemma_dfc_mono(y1, m1, d1, y2, m2, d2); }
    if ymd_lt(y2, m2, d2, y1, m1, d1) { lemma_dfc_mono(y2, m2, d2, y1, m1, d1); }
}

/// order equivalence both ways
pub proof fn lemma_dfc_order(y1: int, m1: int, d1: int, y2: int, m2: int, d2: int)
    requires valid_ymd(y1, m1, d1), valid_ymd(y2, m2, d2),
    ensures ymd_lt(y1, m1, d1, y2, m2, d2) <==> days_from_civil(y1, m1, d1) < days_from_civil(y2, m2, d2),
            (y1 == y2 && m1 == m2 && d1 == d2) <==> days_from_civil(y1, m1, d1) == days_from_civil(y2, m2, d2),
{
    if ymd_lt(y1, m1, d1, y2, m2, d2) { lemma_dfc_mono(y1, m1, d1, y2, m2, d2); }
    if ymd_lt(y2, m2, d2, y1, m1, d1) { lemma_dfc_mono(y2, m2, d2, y1, m1, d1); }
}

/// 400-year periodicity
pub proof fn lemma_dby_400(y: int, k: int)
    ensures days_before_year(y + 400 * k) == days_before_year(y) + 146097 * k,
{
    assert((y + 400 * k + 3) / 4 == (y + 3) / 4 + 100 * k);
    assert((y + 400 * k + 99) / 100 == (y + 99) / 100 + 4 * k);
    assert((y + 400 * k + 399) / 400 == (y + 399) / 400 + k);
}

pub proof fn lemma_sanity_values()
    ensures days_from_civil(1970, 1, 1) == 0, days_from_civil(2000, 3, 1) == 11017,
            days_from_civil(-271821, 4, 19) == -100_000_001, days_from_civil(275760, 9, 13) == 100_000_000,
            days_from_civil(1969, 12, 31) == -1, days_from_civil(1972, 2, 29) == 789,
            is_leap(2000), !is_leap(1900), is_leap(1972), !is_leap(1970), is_leap(0), !is_leap(-100), is_leap(-400),
{
}

// ---------------------------------------------------------------------------------------------
// Neri-Schneider: computational calendar (year starts March 1) against the rule

pub open spec fn nsf(y: int) -> int { 365 * y + y / 4 - y / 100 + y / 400 }

pub open spec fn mtab(mm: int) -> int {
    if mm <= 3 { 0 } else if mm == 4 { 31 } else if mm == 5 { 61 } else if mm == 6 { 92 } else if mm == 7 { 122 }
    else if mm == 8 { 153 } else if mm == 9 { 184 } else if mm == 10 { 214 } else if mm == 11 { 245 }
    else if mm == 12 { 275 } else if mm == 13 { 306 } else { 337 }
}

pub proof fn lemma_f_shift(y: int)
    ensures nsf(y + 1_468_000) == nsf(y) + 536_175_990,
{
    assert((y + 1_468_000) / 4 == y / 4 + 367_000);
    assert((y + 1_468_000) / 100 == y / 100 + 14_680);
    assert((y + 1_468_000) / 400 == y / 400 + 3_670);
}

pub proof fn lemma_f_dby(y: int)
    ensures nsf(y) == days_before_year(y) + (if is_leap(y) { 1int } else { 0int }) - 1,
{
    lemma_div_ceil(y, 4);
    lemma_div_ceil(y, 100);
    lemma_div_ceil(y, 400);
    lemma_mod_chain(y);
}

pub proof fn lemma_div_ceil(y: int, k: int)
    requires k == 4 || k == 100 || k == 400,
    ensures (y + k - 1) / k == y / k + (if y % k == 0 { 0int } else { 1int }),
{
}

pub proof fn lemma_f_step(y: int)
    ensures nsf(y) == nsf(y - 1) + 365 + (if is_leap(y) { 1int } else { 0int }),
{
    lemma_f_dby(y);
    lemma_f_dby(y - 1);
    lemma_dby_step(y - 1);
}

pub proof fn lemma_mstar(mm: int)
    requires 3 <= mm <= 14,
    ensures (979 * mm - 2919) / 32 == mtab(mm),
{
}

/// computational (March-based, shifted) date -> day number.  yy = y + 1_468_000 - j, mm = m + 12 j.
pub proof fn lemma_forward(y: int, m: int)
    requires 1 <= m <= 12,
    ensures ({ let j: int = if m <= 2 { 1 } else { 0 }; let yy = y + 1_468_000 - j; let c = yy / 100; let mm = m + 12 * j;
        1461 * yy / 4 - c + c / 4 + (979 * mm - 2919) / 32 - 536_895_458 == days_from_civil(y, m, 1) }),
{
    let j: int = if m <= 2 { 1 } else { 0 };
    let yy = y + 1_468_000 - j;
    let c = yy / 100;
    let mm = m + 12 * j;
    assert(1461 * yy / 4 == 365 * yy + yy / 4);
    assert(c / 4 == yy / 400);
    assert(1461 * yy / 4 - c + c / 4 == nsf(yy));
    lemma_f_shift(y - j);
    lemma_mstar(mm);
    lemma_f_dby(y);
    if j == 1 { lemma_f_step(y); }
    assert(nsf(yy) == nsf(y - j) + 536_175_990);
}

/// month 0 (used by iso_date_to_epoch_days for December) behaves as December of the previous year
pub proof fn lemma_forward_m0(y: int)
    ensures ({ let yy = y + 1_468_000 - 1; let c = yy / 100;
        1461 * yy / 4 - c + c / 4 + (979 * 12 - 2919) / 32 - 536_895_458 == days_from_civil(y - 1, 12, 1) }),
{
    lemma_forward(y - 1, 12);
}

pub proof fn lemma_or3(x: u32)
    ensures (x | 3) == (x / 4) * 4 + 3,
{
    assert((x | 3) == (x / 4) * 4 + 3) by (bit_vector);
}

/// 2_939_745 / 2^32 stage
pub proof fn lemma_magic32(n2: int, q: int, r: int)
    requires 0 <= q < 100, 0 <= r < 1461, n2 == 1461 * q + r,
    ensures (2939745 * n2) / 4294967296 == q,
            ((2939745 * n2) % 4294967296) / 2939745 == r,
{
    assert(2939745 * n2 == q * 4294967296 + (149 * q + 2939745 * r)) by (nonlinear_arith)
        requires n2 == 1461 * q + r;
    let rem = 149 * q + 2939745 * r;
    assert(0 <= rem < 4294967296) by (nonlinear_arith) requires 0 <= q < 100, 0 <= r < 1461, rem == 149 * q + 2939745 * r;
    vstd::arithmetic::div_mod::lemma_fundamental_div_mod_converse(2939745 * n2, 4294967296, q, rem);
    assert(2939745 * r <= rem < 2939745 * r + 2939745) by (nonlinear_arith) requires 0 <= q < 100, rem == 149 * q + 2939745 * r;
    vstd::arithmetic::div_mod::lemma_fundamental_div_mod_converse(rem, 2939745, r, 149 * q);
}

/// 376_287_347 / 2^39 stage: 376287347 * 1461 = 2^39 + 79
pub proof fn lemma_magic39(n2: int, q: int, r: int)
    requires 0 <= q < 100, 0 <= r < 1461, n2 == 1461 * q + r,
    ensures (376287347 * n2) / 549755813888 == q,
{
    assert(376287347 * n2 == q * 549755813888 + (79 * q + 376287347 * r)) by (nonlinear_arith)
        requires n2 == 1461 * q + r;
    let rem = 79 * q + 376287347 * r;
    assert(0 <= rem < 549755813888) by (nonlinear_arith) requires 0 <= q < 100, 0 <= r < 1461, rem == 79 * q + 376287347 * r;
    vstd::arithmetic::div_mod::lemma_fundamental_div_mod_converse(376287347 * n2, 549755813888, q, rem);
}

/// century split: n = 4x+3 = 146097 c + r  ==>  x = 36524 c + c/4 + r/4, r/4 <= 36524, and r/4 == 36524 only if c % 4 == 3
pub proof fn lemma_century_split(x: int)
    requires 0 <= x,
    ensures ({ let n = 4 * x + 3; let c = n / 146097; let r = n % 146097;
        x == 36524 * c + c / 4 + r / 4 && 0 <= r / 4 <= 36524 && (r / 4 == 36524 ==> c % 4 == 3) && c >= 0 }),
{
    let n = 4 * x + 3;
    let c = n / 146097;
    let r = n % 146097;
    assert(n == 146097 * c + r);
    assert(146097 * c == 4 * (36524 * c + c / 4) + c % 4);
}

/// year split inside a century: n2 = 4 nc + 3 = 1461 z + r2 ==> nc = 365 z + z/4 + r2/4, r2/4 <= 365, == 365 only if z % 4 == 3
pub proof fn lemma_year_split(nc: int)
    requires 0 <= nc <= 36524,
    ensures ({ let n2 = 4 * nc + 3; let z = n2 / 1461; let r2 = n2 % 1461;
        nc == 365 * z + z / 4 + r2 / 4 && 0 <= r2 / 4 <= 365 && (r2 / 4 == 365 ==> z % 4 == 3) && 0 <= z <= 99
        && (nc == 36524 ==> z == 99 && r2 / 4 == 365) && (z == 99 && r2 / 4 == 365 ==> nc == 36524) }),
{
    let n2 = 4 * nc + 3;
    let z = n2 / 1461;
    let r2 = n2 % 1461;
    assert(n2 == 1461 * z + r2);
    assert(1461 * z == 4 * (365 * z + z / 4) + z % 4);
}

/// month stage: ny in 0..=365 -> (M, D) with M in 3..=14, mtab(M) + D == ny, D < mtab(M+1) - mtab(M) (Feb: 29)
pub proof fn lemma_month_stage(ny: int)
    requires 0 <= ny <= 365,
    ensures ({ let n3 = 2141 * ny + 197913; let mm = n3 / 65536; let dd = (n3 % 65536) / 2141;
        3 <= mm <= 14 && mtab(mm) + dd == ny && 0 <= dd && (mm < 14 ==> mtab(mm) + dd < mtab(mm + 1)) && (mm == 14 ==> dd <= 28)
        && (mm >= 13 <==> ny >= 306) }),
{
    let n3 = 2141 * ny + 197913;
    let mm = n3 / 65536;
    let r3 = n3 % 65536;
    assert(n3 == 65536 * mm + r3);
    // which month: interval test, all linear
    assert(3 <= mm <= 14);
    assert(mtab(mm) <= ny);
    assert(mm < 14 ==> ny < mtab(mm + 1));
    let dd = r3 / 2141;
    // 0 <= 197913 - 65536 mm + 2141 mtab(mm) < 2141 for each month
    assert(r3 == 2141 * (ny - mtab(mm)) + (197913 - 65536 * mm + 2141 * mtab(mm)));
    assert(0 <= 197913 - 65536 * mm + 2141 * mtab(mm) < 2141);
    vstd::arithmetic::div_mod::lemma_fundamental_div_mod_converse(r3, 2141, ny - mtab(mm), 197913 - 65536 * mm + 2141 * mtab(mm));
}

/// the whole backward computation: for computational rata die x, the (Y, M, D) produced is the valid
/// calendar date whose day number is x - 536_895_458.
pub proof fn lemma_backward(x: int)
    requires 0 <= x,
    ensures ({
        let n1 = 4 * x + 3; let c = n1 / 146097; let nc = (n1 % 146097) / 4;
        let n2 = 4 * nc + 3; let z = n2 / 1461; let ny = (n2 % 1461) / 4;
        let n3 = 2141 * ny + 197913; let mm = n3 / 65536; let dd = (n3 % 65536) / 2141;
        let j: int = if ny >= 306 { 1 } else { 0 };
        let y = 100 * c + z + j - 1_468_000; let m = mm - 12 * j; let d = dd + 1;
        valid_ymd(y, m, d) && days_from_civil(y, m, d) == x - 536_895_458 && 0 <= ny <= 365 && 0 <= z <= 99 && c >= 0 }),
{
    let n1 = 4 * x + 3; let c = n1 / 146097; let nc = (n1 % 146097) / 4;
    let n2 = 4 * nc + 3; let z = n2 / 1461; let ny = (n2 % 1461) / 4;
    let n3 = 2141 * ny + 197913; let mm = n3 / 65536; let dd = (n3 % 65536) / 2141;
    let j: int = if ny >= 306 { 1 } else { 0 };
    let yy = 100 * c + z;
    let y = yy + j - 1_468_000; let m = mm - 12 * j; let d = dd + 1;
    lemma_century_split(x);
    lemma_year_split(nc);
    lemma_month_stage(ny);
    // forward formula on (yy, mm, dd) gives x
    assert(yy / 100 == c);
    assert(yy / 400 == c / 4);
    assert(yy / 4 == 25 * c + z / 4);
    assert(nsf(yy) + mtab(mm) + dd == x);
    // connect with days_from_civil via lemma_forward
    lemma_forward(y, m);
    lemma_mstar(mm);
    assert(1461 * yy / 4 == 365 * yy + yy / 4);
    assert(days_from_civil(y, m, 1) + dd == x - 536_895_458);
    // validity of the day: only February needs the leap rule
    if mm == 14 && dd == 28 {
        // ny == 365: z % 4 == 3 and (z == 99 ==> nc == 36524 ==> c % 4 == 3)
        assert(ny == 365);
        assert(z % 4 == 3);
        assert(y == yy + 1 - 1_468_000);
        assert((yy + 1) % 4 == 0);
        if z == 99 {
            assert(nc == 36524);
            assert(c % 4 == 3);
            assert((yy + 1) % 400 == 0);
        } else {
            assert((yy + 1) % 100 != 0);
        }
        assert(is_leap(yy + 1));
        assert(is_leap(y)) by {
            assert(y % 4 == 0);
            assert(y % 100 == 0 <==> (yy + 1) % 100 == 0);
            assert(y % 400 == 0 <==> (yy + 1) % 400 == 0);
        }
    }
}

// ---------------------------------------------------------------------------------------------
// kernel domains and the stage functions of the backward kernel
// largest domains on which no intermediate of the kernels overflows (derived from the code)
pub open spec fn fwd_year_ok(y: int) -> bool { -1_467_999 <= y <= 1_471_744 }
pub open spec fn bwd_day_ok(n: int) -> bool { -536_895_458 <= n <= 536_846_365 }
pub open spec fn rd_ok(x: int) -> bool { 0 <= x <= 1_073_741_823 }

/// what the backward kernel must return for computational rata die x
pub open spec fn ns_c(x: int) -> int { (4 * x + 3) / 146097 }
pub open spec fn ns_nc(x: int) -> int { ((4 * x + 3) % 146097) / 4 }
pub open spec fn ns_z(x: int) -> int { (4 * ns_nc(x) + 3) / 1461 }
pub open spec fn ns_ny(x: int) -> int { ((4 * ns_nc(x) + 3) % 1461) / 4 }
pub open spec fn ns_mm(x: int) -> int { (2141 * ns_ny(x) + 197913) / 65536 }
pub open spec fn ns_dd(x: int) -> int { ((2141 * ns_ny(x) + 197913) % 65536) / 2141 }
pub open spec fn ns_j(x: int) -> int { if ns_ny(x) >= 306 { 1 } else { 0 } }

pub proof fn lemma_backward_ns(x: int)
    requires 0 <= x,
    ensures ({ let y = 100 * ns_c(x) + ns_z(x) + ns_j(x) - 1_468_000; let m = ns_mm(x) - 12 * ns_j(x); let d = ns_dd(x) + 1;
        valid_ymd(y, m, d) && days_from_civil(y, m, d) == x - 536_895_458 && 0 <= ns_ny(x) <= 365 && 0 <= ns_z(x) <= 99 && ns_c(x) >= 0
        && 3 <= ns_mm(x) <= 14 && 0 <= ns_dd(x) <= 30 }),
{
    lemma_backward(x);
    lemma_month_stage(ns_ny(x));
}

/// consecutive day numbers are consecutive calendar days (successor function of the calendar)
pub open spec fn succ_y(y: int, m: int, d: int) -> int { if d < dim(y, m) { y } else if m < 12 { y } else { y + 1 } }
pub open spec fn succ_m(y: int, m: int, d: int) -> int { if d < dim(y, m) { m } else if m < 12 { m + 1 } else { 1 } }
pub open spec fn succ_d(y: int, m: int, d: int) -> int { if d < dim(y, m) { d + 1 } else { 1 } }

pub proof fn lemma_succ(y: int, m: int, d: int)
    requires valid_ymd(y, m, d),
    ensures valid_ymd(succ_y(y, m, d), succ_m(y, m, d), succ_d(y, m, d)),
            days_from_civil(succ_y(y, m, d), succ_m(y, m, d), succ_d(y, m, d)) == days_from_civil(y, m, d) + 1,
{
    if d < dim(y, m) {
    } else if m < 12 {
        lemma_month_roll(y, m);
    } else {
        lemma_year_roll(y);
    }
}

/// days on which both kernels are defined (forward needs 1461*(y+1468000) to fit u32)
pub open spec fn both_day_ok(n: int) -> bool { -536_895_152 <= n <= 536_824_295 }

pub proof fn lemma_year_bounds(y: int, m: int, d: int, n: int)
    requires valid_ymd(y, m, d), days_from_civil(y, m, d) == n, both_day_ok(n),
    ensures -1_467_999 <= y <= 1_471_744,
{
    assert(days_from_civil(-1_467_999, 1, 1) == -536_895_152);
    assert(days_from_civil(1_471_744, 12, 31) == 536_824_295);
    if y < -1_467_999 {
        lemma_dfc_mono(y, m, d, -1_467_999, 1, 1);
    }
    if y > 1_471_744 {
        lemma_dfc_mono(1_471_744, 12, 31, y, m, d);
    }
}


/// the civil year containing day number n (defined through the backward stages; characterised by lemma_civil_year)
pub open spec fn civil_year(n: int) -> int {
    let x = n + 536_895_458;
    100 * ns_c(x) + ns_z(x) + ns_j(x) - 1_468_000
}

pub proof fn lemma_civil_year(n: int)
    requires n >= -536_895_458,
    ensures days_from_civil(civil_year(n), 1, 1) <= n < days_from_civil(civil_year(n) + 1, 1, 1),
{
    let x = n + 536_895_458;
    lemma_backward_ns(x);
    let y = civil_year(n); let m = ns_mm(x) - 12 * ns_j(x); let d = ns_dd(x) + 1;
    if !(m == 1 && d == 1) { lemma_dfc_mono(y, 1, 1, y, m, d); }
    lemma_dfc_mono(y, m, d, y + 1, 1, 1);
}

pub proof fn lemma_civil_year_unique(n: int, y: int)
    requires n >= -536_895_458, days_from_civil(y, 1, 1) <= n < days_from_civil(y + 1, 1, 1),
    ensures civil_year(n) == y,
{
    lemma_civil_year(n);
    let c = civil_year(n);
    if c < y { lemma_dfc_order(c + 1, 1, 1, y, 1, 1); }
    if c > y { lemma_dfc_order(y + 1, 1, 1, c, 1, 1); }
}

/// BalanceISODate: the day number of (year, month, day) with month any integer (1-based) and day any integer
pub open spec fn balance_days(year: int, month: int, day: int) -> int {
    days_from_civil(ym_norm_y(year, month), ym_norm_m(year, month), 1) + day - 1
}

pub proof fn lemma_balance_days_valid(y: int, m: int, d: int)
    requires 1 <= m <= 12,
    ensures balance_days(y, m, d) == days_from_civil(y, m, d),
{
}

// ---- range helpers shared by units tz, postparse (moved here so that unit greg proves them once) ----
/// a valid date within +-3.1e8 days of the epoch has |year| <= 1.4M
pub proof fn lemma_year_ok(y: int, m: int, d: int)
    requires valid_ymd(y, m, d), -310_000_000 <= days_from_civil(y, m, d) <= 310_000_000,
    ensures -1_400_000 <= y <= 1_400_000,
{
    assert(days_from_civil(-1_400_000, 1, 1) < -310_000_000);
    assert(days_from_civil(1_400_000, 12, 31) > 310_000_000);
    if y < -1_400_000 { lemma_dfc_mono(y, m, d, -1_400_000, 1, 1); }
    if y > 1_400_000 { lemma_dfc_mono(1_400_000, 12, 31, y, m, d); }
}

/// BalanceISODate on a valid date with a day shift
pub proof fn lemma_day_shift(y: int, m: int, d: int, c: int)
    requires 1 <= m <= 12,
    ensures balance_days(y, m, d + c) == days_from_civil(y, m, d) + c,
{
}

pub proof fn lemma_limits_year(y: int, m: int, d: int)
    requires valid_ymd(y, m, d), -100_000_001 <= days_from_civil(y, m, d) <= 100_000_000,
    ensures -271_821 <= y <= 275_760,
{
    assert(days_from_civil(-271_821, 1, 1) == -100_000_109);
    assert(days_from_civil(275_760, 12, 31) == 100_000_109);
    if y < -271_821 { lemma_dfc_mono(y, m, d, -271_821, 1, 1); }
    if y > 275_760 { lemma_dfc_mono(275_760, 12, 31, y, m, d); }
}

/// day number of a valid date with |year| <= 1.4M stays far inside the kernel domain
pub proof fn lemma_year_days_bound(y: int, m: int, d: int)
    requires valid_ymd(y, m, d), -1_400_000 <= y <= 1_400_000,
    ensures -512_100_000 <= days_from_civil(y, m, d) <= 512_100_000,
{
    assert(-350_000 <= (y + 3) / 4 <= 350_001);
    assert(-14_000 <= (y + 99) / 100 <= 14_001);
    assert(-3_500 <= (y + 399) / 400 <= 3_501);
}

