// E7 stand-ins for the calendar plumbing: tinystr::TinyAsciiStr (bytes kept), Calendar (only "is it the ISO calendar"
// and identity are observable), EraInfo.  Non-ISO calendars are computed inside icu_calendar and are not modelled.
#[derive(Clone, Copy, PartialEq)]
pub struct TinyAsciiStr<const N: usize> { pub bytes: [u8; N] }
pub struct TinyStrError;
impl<const N: usize> TinyAsciiStr<N> {
    #[verifier::external_body]
    pub fn all_bytes(&self) -> (r: &[u8; N])
        ensures *r == self.bytes,
    { unimplemented!() }
    /// tinystr: the raw array must be ASCII with NUL bytes only at the end
    #[verifier::external_body]
    pub fn try_from_raw(raw: [u8; N]) -> (r: Result<Self, TinyStrError>)
        ensures r is Ok ==> r->Ok_0.bytes == raw,
                (forall|i: int| 0 <= i < N ==> raw@[i] < 128) && (forall|i: int, j: int| 0 <= i < j < N && raw@[i] == 0 ==> raw@[j] == 0) ==> r is Ok,
    { unimplemented!() }
}
pub assume_specification [<u8>::is_ascii_digit] (b: &u8) -> (r: bool)
    ensures r == (48 <= *b <= 57);

#[derive(Clone, Copy, PartialEq, Eq, Structural)]
pub struct Calendar { pub iso: bool, pub kind: u8 }
/// Calendar::default() is the ISO calendar
impl Default for Calendar { fn default() -> (r: Self) ensures r.iso { Calendar { iso: true, kind: 0 } } }
pub struct EraInfo { pub name: TinyAsciiStr<16>, pub range: core::ops::RangeInclusive<i32> }
impl Calendar {
    #[verifier::external_body]
    pub fn is_iso(&self) -> (r: bool)
        ensures r == self.iso,
    { unimplemented!() }
    /// every calendar with a single era (the ISO calendar among them) has a default era
    #[verifier::external_body]
    pub fn get_calendar_default_era(&self) -> (r: Option<EraInfo>)
        ensures self.iso ==> r is Some,
    { unimplemented!() }
    #[verifier::external_body]
    pub fn get_era_info(&self, era_alias: &TinyAsciiStr<19>) -> (r: Option<EraInfo>)
    { unimplemented!() }
}
