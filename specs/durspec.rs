// S-BAL vocabulary (BalanceTimeDuration) shared by units durcore and dtdiff; needs Unit, TimeDuration (with total_ns), specs/f64.rs
pub open spec fn unit_rank(u: Unit) -> int {
    match u { Unit::Auto => 0, Unit::Nanosecond => 1, Unit::Microsecond => 2, Unit::Millisecond => 3, Unit::Second => 4, Unit::Minute => 5,
              Unit::Hour => 6, Unit::Day => 7, Unit::Week => 8, Unit::Month => 9, Unit::Year => 10 }
}

pub open spec fn iabs(x: int) -> int { if x < 0 { -x } else { x } }
/// magnitude of the field of the largest unit after balancing |norm|
pub open spec fn bt_top(n: int, u: Unit) -> int {
    match u { Unit::Hour => iabs(n) / 3_600_000_000_000, Unit::Minute => iabs(n) / 60_000_000_000, Unit::Second => iabs(n) / 1_000_000_000,
        Unit::Millisecond => iabs(n) / 1_000_000, Unit::Microsecond => iabs(n) / 1_000, Unit::Nanosecond => iabs(n), _ => iabs(n) / 86_400_000_000_000 }
}
/// every field carries the sign of n; fields below the largest unit are within their radix, fields above it are zero
pub open spec fn bt_radix(n: int, u: Unit, d: int, t: TimeDuration) -> bool {
    let sg: int = if n < 0 { -1 } else { 1 }; let k = unit_rank(u);
    let h = if n < 0 { -fval(t.hours) } else { fval(t.hours) }; let mi = if n < 0 { -fval(t.minutes) } else { fval(t.minutes) };
    let s = if n < 0 { -fval(t.seconds) } else { fval(t.seconds) }; let ms = if n < 0 { -fval(t.milliseconds) } else { fval(t.milliseconds) };
    let us = if n < 0 { -fval(t.microseconds) } else { fval(t.microseconds) }; let ns = if n < 0 { -fval(t.nanoseconds) } else { fval(t.nanoseconds) };
    let dd = if n < 0 { -d } else { d };
    dd >= 0 && h >= 0 && mi >= 0 && s >= 0 && ms >= 0 && us >= 0 && ns >= 0
    && (k >= 7 ==> h < 24) && (k < 7 ==> d == 0)
    && (k >= 6 ==> mi < 60) && (k < 6 ==> h == 0)
    && (k >= 5 ==> s < 60) && (k < 5 ==> mi == 0)
    && (k >= 4 ==> ms < 1000) && (k < 4 ==> s == 0)
    && (k >= 3 ==> us < 1000) && (k < 3 ==> ms == 0)
    && (k >= 2 ==> ns < 1000) && (k < 2 ==> us == 0)
}

