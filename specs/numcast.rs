// E7 stand-in for num_traits::{ToPrimitive, NumCast} (in scope only where the repository imports them: rounding.rs)
/// num_traits::ToPrimitive / NumCast restricted to the integer types used: `<X as NumCast>::from(n)` is
/// Some(n) iff n is representable in X.
pub trait ToPrimitive: Sized { spec fn as_int(self) -> int; }
impl ToPrimitive for u128 { open spec fn as_int(self) -> int { self as int } }
impl ToPrimitive for i128 { open spec fn as_int(self) -> int { self as int } }
impl ToPrimitive for u64 { open spec fn as_int(self) -> int { self as int } }
impl ToPrimitive for i64 { open spec fn as_int(self) -> int { self as int } }
pub trait NumCast: Sized {
    spec fn fits(v: int) -> bool;
    spec fn val(self) -> int;
    fn from<N: ToPrimitive>(n: N) -> (r: Option<Self>)
        ensures Self::fits(n.as_int()) ==> r is Some && r->Some_0.val() == n.as_int(),
                !Self::fits(n.as_int()) ==> r is None;
}
impl NumCast for i128 {
    open spec fn fits(v: int) -> bool { i128::MIN <= v <= i128::MAX }
    open spec fn val(self) -> int { self as int }
    #[verifier::external_body]
    fn from<N: ToPrimitive>(n: N) -> (r: Option<Self>) { unimplemented!() }
}
impl NumCast for u128 {
    open spec fn fits(v: int) -> bool { 0 <= v <= u128::MAX }
    open spec fn val(self) -> int { self as int }
    #[verifier::external_body]
    fn from<N: ToPrimitive>(n: N) -> (r: Option<Self>) { unimplemented!() }
}

