// ordering helper used by the generated E6 specs
pub open spec fn cmp_int(a: int, b: int) -> core::cmp::Ordering {
    if a < b { core::cmp::Ordering::Less } else if a == b { core::cmp::Ordering::Equal } else { core::cmp::Ordering::Greater }
}
