// S-ADD / S-DIFF vocabulary shared by units datearith and dtdiff (needs IsoDate with its generated lex order, specs/greg.rs)
// ---- S-ADD: AddISODate written from the statement ----
pub open spec fn clamp_day(y: int, m: int, d: int) -> int { if d < 1 { 1 } else if d > dim(y, m) { dim(y, m) } else { d } }
/// day number of the intermediate date: years and months first, day constrained
pub open spec fn add_ym_days(date: IsoDate, y: int, m: int) -> int {
    let yy = ym_norm_y(date.year + y, date.month + m); let mm = ym_norm_m(date.year + y, date.month + m);
    days_from_civil(yy, mm, clamp_day(yy, mm, date.day as int))
}
/// true when reject must fail: the day does not exist in the target month
pub open spec fn add_ym_rejects(date: IsoDate, y: int, m: int) -> bool {
    let yy = ym_norm_y(date.year + y, date.month + m); let mm = ym_norm_m(date.year + y, date.month + m);
    date.day > dim(yy, mm)
}
pub open spec fn add_iso_days(date: IsoDate, y: int, m: int, w: int, d: int) -> int { add_ym_days(date, y, m) + 7 * w + d }

/// ISODateSurpasses: lexicographic comparison of the (possibly non-existent) date fields in the direction of sign
pub open spec fn surp(a: IsoDate, b: IsoDate, s: int) -> bool {
    (s == 1 && lex_IsoDate(a, b) == Ordering::Greater) || (s == -1 && lex_IsoDate(a, b) == Ordering::Less)
}
pub open spec fn smul(s: int, x: int) -> int { if s == 1 { x } else if s == -1 { -x } else { 0 } }
pub open spec fn mk(y: int, m: int, d: int) -> IsoDate { IsoDate { year: y as i32, month: m as u8, day: d as u8 } }
/// the causes for which AddISODate / CalendarDateAdd may refuse (C04 / C08): a component outside the 32-bit range, an
/// intermediate year-month outside the supported years, `reject` with a day that does not exist, a day offset beyond
/// twice the supported span, or a result outside the supported range
pub open spec fn add_refused(date: IsoDate, y: int, m: int, w: int, d: int, overflow: ArithmeticOverflow) -> bool {
    !(i32::MIN <= y <= i32::MAX && i32::MIN <= m <= i32::MAX && i32::MIN <= w <= i32::MAX && i32::MIN <= d <= i32::MAX)
    || !(-271_821 <= ym_norm_y(date.year + y, date.month + m) <= 275_760)
    || (overflow == ArithmeticOverflow::Reject && add_ym_rejects(date, y, m))
    || !(-100_000_001 <= add_ym_days(date, y, m) <= 100_000_000)
    || d + 7 * w > 200_000_000 || d + 7 * w < -200_000_031
    || !(-100_000_001 <= add_iso_days(date, y, m, w, d) <= 100_000_000)
}
