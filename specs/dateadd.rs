// S-ADD / S-DIFF vocabulary shared by units datearith and dtdiff (needs IsoDate with its generated lex order, specs/greg.rs)
// ---- S-ADD: AddISODate written from the statement ----
pub open spec fn clamp_day(y: int, m: int, d: int) -> int { if d < 1 { 1 } else if d > dim(y, m) { dim(y, m) } else { d } }
/// day number of the intermediate date: years and months first, day constrained
pub open spec fn add_ym_days(date: IsoDate, y: int, m: int) -> int {
    let yy = ym_norm_y(date.year + y, date.month + m); let mm = ym_norm_m(date.year + y, date.month + m);
    days_from_civil(yy, mm, clamp_day(yy, mm, date.day as int))
}
/// true when reject must fail: the day does not exist in the target month
pub open spec fn add_ym_rejects(date: IsoDate, y: int, m: int) -> bool {
    let yy = ym_norm_y(date.year + y, date.month + m); let mm = ym_norm_m(date.year + y, date.month + m);
    date.day > dim(yy, mm)
}
pub open spec fn add_iso_days(date: IsoDate, y: int, m: int, w: int, d: int) -> int { add_ym_days(date, y, m) + 7 * w + d }

/// ISODateSurpasses: lexicographic comparison of the (possibly non-existent) date fields in the direction of sign
pub open spec fn surp(a: IsoDate, b: IsoDate, s: int) -> bool {
    (s == 1 && lex_IsoDate(a, b) == Ordering::Greater) || (s == -1 && lex_IsoDate(a, b) == Ordering::Less)
}
pub open spec fn smul(s: int, x: int) -> int { if s == 1 { x } else if s == -1 { -x } else { 0 } }
pub open spec fn mk(y: int, m: int, d: int) -> IsoDate { IsoDate { year: y as i32, month: m as u8, day: d as u8 } }
