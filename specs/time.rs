// S-TIME: wall-clock time as an integer number of nanoseconds since midnight, and the epoch line.
pub open spec fn ns_day() -> int { 86_400_000_000_000 }
pub open spec fn ns_max() -> int { 8_640_000_000_000_000_000_000 }

pub open spec fn time_ns(h: int, mi: int, s: int, ms: int, us: int, ns: int) -> int {
    ((((h * 60 + mi) * 60 + s) * 1000 + ms) * 1000 + us) * 1000 + ns
}

pub open spec fn valid_time_fields(h: int, mi: int, s: int, ms: int, us: int, ns: int) -> bool {
    0 <= h <= 23 && 0 <= mi <= 59 && 0 <= s <= 59 && 0 <= ms <= 999 && 0 <= us <= 999 && 0 <= ns <= 999
}

/// the unique decomposition of t in [0, NS_DAY) into clock fields (mixed radix 24:60:60:1000:1000:1000)
pub open spec fn tf_ns(t: int) -> int { t % 1000 }
pub open spec fn tf_us(t: int) -> int { (t / 1000) % 1000 }
pub open spec fn tf_ms(t: int) -> int { (t / 1000 / 1000) % 1000 }
pub open spec fn tf_s(t: int) -> int { (t / 1000 / 1000 / 1000) % 60 }
pub open spec fn tf_mi(t: int) -> int { (t / 1000 / 1000 / 1000 / 60) % 60 }
pub open spec fn tf_h(t: int) -> int { t / 1000 / 1000 / 1000 / 60 / 60 }

pub proof fn lemma_time_fields(t: int)
    requires 0 <= t < ns_day(),
    ensures valid_time_fields(tf_h(t), tf_mi(t), tf_s(t), tf_ms(t), tf_us(t), tf_ns(t)),
            time_ns(tf_h(t), tf_mi(t), tf_s(t), tf_ms(t), tf_us(t), tf_ns(t)) == t,
{
    let a = t / 1000; let b = a / 1000; let c = b / 1000; let d = c / 60; let e = d / 60;
    assert(t == 1000 * a + t % 1000);
    assert(a == 1000 * b + a % 1000);
    assert(b == 1000 * c + b % 1000);
    assert(c == 60 * d + c % 60);
    assert(d == 60 * e + d % 60);
}

/// time_ns is injective on valid fields (so a time value *is* its nanosecond count)
pub proof fn lemma_time_ns_bounds(h: int, mi: int, s: int, ms: int, us: int, ns: int)
    requires valid_time_fields(h, mi, s, ms, us, ns),
    ensures 0 <= time_ns(h, mi, s, ms, us, ns) < ns_day(),
            tf_h(time_ns(h, mi, s, ms, us, ns)) == h, tf_mi(time_ns(h, mi, s, ms, us, ns)) == mi,
            tf_s(time_ns(h, mi, s, ms, us, ns)) == s, tf_ms(time_ns(h, mi, s, ms, us, ns)) == ms,
            tf_us(time_ns(h, mi, s, ms, us, ns)) == us, tf_ns(time_ns(h, mi, s, ms, us, ns)) == ns,
{
    let d = h * 60 + mi; let c = d * 60 + s; let b = c * 1000 + ms; let a = b * 1000 + us; let t = a * 1000 + ns;
    vstd::arithmetic::div_mod::lemma_fundamental_div_mod_converse(t, 1000, a, ns);
    vstd::arithmetic::div_mod::lemma_fundamental_div_mod_converse(a, 1000, b, us);
    vstd::arithmetic::div_mod::lemma_fundamental_div_mod_converse(b, 1000, c, ms);
    vstd::arithmetic::div_mod::lemma_fundamental_div_mod_converse(c, 60, d, s);
    vstd::arithmetic::div_mod::lemma_fundamental_div_mod_converse(d, 60, h, mi);
}

/// BalanceTime: carry chain nanosecond -> ... -> hour -> days, written as the code computes it
pub open spec fn bt_ns(ns: int) -> int { ns % 1000 }
pub open spec fn bt_us1(us: int, ns: int) -> int { us + ns / 1000 }
pub open spec fn bt_ms1(ms: int, us: int, ns: int) -> int { ms + bt_us1(us, ns) / 1000 }
pub open spec fn bt_s1(s: int, ms: int, us: int, ns: int) -> int { s + bt_ms1(ms, us, ns) / 1000 }
pub open spec fn bt_mi1(mi: int, s: int, ms: int, us: int, ns: int) -> int { mi + bt_s1(s, ms, us, ns) / 60 }
pub open spec fn bt_h1(h: int, mi: int, s: int, ms: int, us: int, ns: int) -> int { h + bt_mi1(mi, s, ms, us, ns) / 60 }

pub proof fn lemma_balance_time(h: int, mi: int, s: int, ms: int, us: int, ns: int)
    ensures ({
        let total = time_ns(h, mi, s, ms, us, ns);
        let h1 = bt_h1(h, mi, s, ms, us, ns);
        let f = time_ns(h1 % 24, bt_mi1(mi, s, ms, us, ns) % 60, bt_s1(s, ms, us, ns) % 60, bt_ms1(ms, us, ns) % 1000, bt_us1(us, ns) % 1000, ns % 1000);
        valid_time_fields(h1 % 24, bt_mi1(mi, s, ms, us, ns) % 60, bt_s1(s, ms, us, ns) % 60, bt_ms1(ms, us, ns) % 1000, bt_us1(us, ns) % 1000, ns % 1000)
        && total == (h1 / 24) * ns_day() + f && 0 <= f < ns_day() && h1 / 24 == total / ns_day() && f == total % ns_day() }),
{
    let us1 = bt_us1(us, ns); let ms1 = bt_ms1(ms, us, ns); let s1 = bt_s1(s, ms, us, ns);
    let mi1 = bt_mi1(mi, s, ms, us, ns); let h1 = bt_h1(h, mi, s, ms, us, ns);
    assert(ns == 1000 * (ns / 1000) + ns % 1000);
    assert(us1 == 1000 * (us1 / 1000) + us1 % 1000);
    assert(ms1 == 1000 * (ms1 / 1000) + ms1 % 1000);
    assert(s1 == 60 * (s1 / 60) + s1 % 60);
    assert(mi1 == 60 * (mi1 / 60) + mi1 % 60);
    assert(h1 == 24 * (h1 / 24) + h1 % 24);
    let total = time_ns(h, mi, s, ms, us, ns);
    let f = time_ns(h1 % 24, mi1 % 60, s1 % 60, ms1 % 1000, us1 % 1000, ns % 1000);
    lemma_time_ns_bounds(h1 % 24, mi1 % 60, s1 % 60, ms1 % 1000, us1 % 1000, ns % 1000);
    assert(total == (h1 / 24) * ns_day() + f);
    vstd::arithmetic::div_mod::lemma_fundamental_div_mod_converse(total, ns_day(), h1 / 24, f);
}

/// epoch milliseconds -> clock fields exactly as Date's HourFromTime/MinFromTime/SecFromTime/msFromTime
pub proof fn lemma_ms_fields(ms: int)
    ensures ({ let h = (ms / 3_600_000) % 24; let mi = (ms / 60_000) % 60; let s = (ms / 1000) % 60; let m = ms % 1000;
        ((h * 60 + mi) * 60 + s) * 1000 + m == ms % 86_400_000 && 0 <= h <= 23 && 0 <= mi <= 59 && 0 <= s <= 59 && 0 <= m <= 999 }),
{
    let a = ms / 1000; let b = a / 60; let c = b / 60; let d = c / 24;
    assert(ms == 1000 * a + ms % 1000);
    assert(a == 60 * b + a % 60);
    assert(b == 60 * c + b % 60);
    assert(c == 24 * d + c % 24);
    assert(ms / 60_000 == b) by { vstd::arithmetic::div_mod::lemma_fundamental_div_mod_converse(ms, 60_000, b, 1000 * (a % 60) + ms % 1000); }
    assert(ms / 3_600_000 == c) by { vstd::arithmetic::div_mod::lemma_fundamental_div_mod_converse(ms, 3_600_000, c, 60_000 * (b % 60) + 1000 * (a % 60) + ms % 1000); }
    vstd::arithmetic::div_mod::lemma_fundamental_div_mod_converse(ms, 86_400_000, d, 3_600_000 * (c % 24) + 60_000 * (b % 60) + 1000 * (a % 60) + ms % 1000);
}

/// splitting a valid time's nanosecond count at each unit boundary
pub proof fn lemma_time_split(h: int, mi: int, s: int, ms: int, us: int, ns: int)
    requires valid_time_fields(h, mi, s, ms, us, ns),
    ensures ({ let t = time_ns(h, mi, s, ms, us, ns);
        t / 3_600_000_000_000 == h && t % 3_600_000_000_000 == time_ns(0, mi, s, ms, us, ns)
        && t / 60_000_000_000 == h * 60 + mi && t % 60_000_000_000 == time_ns(0, 0, s, ms, us, ns)
        && t / 1_000_000_000 == (h * 60 + mi) * 60 + s && t % 1_000_000_000 == time_ns(0, 0, 0, ms, us, ns)
        && t / 1_000_000 == ((h * 60 + mi) * 60 + s) * 1000 + ms && t % 1_000_000 == time_ns(0, 0, 0, 0, us, ns)
        && t / 1000 == (((h * 60 + mi) * 60 + s) * 1000 + ms) * 1000 + us && t % 1000 == ns }),
{
    let t = time_ns(h, mi, s, ms, us, ns);
    vstd::arithmetic::div_mod::lemma_fundamental_div_mod_converse(t, 3_600_000_000_000, h, time_ns(0, mi, s, ms, us, ns));
    vstd::arithmetic::div_mod::lemma_fundamental_div_mod_converse(t, 60_000_000_000, h * 60 + mi, time_ns(0, 0, s, ms, us, ns));
    vstd::arithmetic::div_mod::lemma_fundamental_div_mod_converse(t, 1_000_000_000, (h * 60 + mi) * 60 + s, time_ns(0, 0, 0, ms, us, ns));
    vstd::arithmetic::div_mod::lemma_fundamental_div_mod_converse(t, 1_000_000, ((h * 60 + mi) * 60 + s) * 1000 + ms, time_ns(0, 0, 0, 0, us, ns));
    vstd::arithmetic::div_mod::lemma_fundamental_div_mod_converse(t, 1000, (((h * 60 + mi) * 60 + s) * 1000 + ms) * 1000 + us, ns);
}

/// the day carry handed out by BalanceTime: saturated at the i32 bounds (never wrapped)
pub open spec fn sat32(v: int) -> int { if v < i32::MIN { i32::MIN as int } else if v > i32::MAX { i32::MAX as int } else { v } }
