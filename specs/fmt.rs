// S-FMT: canonical Temporal / RFC 9557 text, and the ghost sink the writers append to (rule E10).
pub struct FmtError;
pub type FmtResult = Result<(), FmtError>;
/// stand-in for `W: core::fmt::Write`: only the text written so far is observable (ghost)
pub struct Sink { pub out: Ghost<Seq<char>> }
impl View for Sink { type V = Seq<char>; open spec fn view(&self) -> Seq<char> { self.out@ } }

pub open spec fn digit_char(n: int) -> char { (('0' as u8) + n as u8) as char }
/// minimal decimal expansion of a natural number
pub open spec fn dec(n: nat) -> Seq<char> decreases n {
    if n < 10 { seq![digit_char(n as int)] } else { dec(n / 10).push(digit_char((n % 10) as int)) }
}
/// the last `w` decimal digits of n, zero padded
pub open spec fn dec_pad(n: nat, w: nat) -> Seq<char> decreases w {
    if w == 0 { Seq::empty() } else { dec_pad(n / 10, (w - 1) as nat).push(digit_char((n % 10) as int)) }
}
pub open spec fn pad2(n: int) -> Seq<char> { seq![digit_char(n / 10 % 10), digit_char(n % 10)] }
/// four digits for 0..=9999, otherwise sign and six digits
pub open spec fn year_text(y: int) -> Seq<char> {
    if 0 <= y <= 9999 { seq![digit_char(y / 1000), digit_char(y / 100 % 10), digit_char(y / 10 % 10), digit_char(y % 10)] }
    else { let a = if y < 0 { -y } else { y };
        seq![if y < 0 { '-' } else { '+' }, digit_char(a / 100000 % 10), digit_char(a / 10000 % 10), digit_char(a / 1000 % 10), digit_char(a / 100 % 10), digit_char(a / 10 % 10), digit_char(a % 10)] }
}
pub open spec fn date_text(y: int, m: int, d: int) -> Seq<char> { year_text(y) + seq!['-'] + pad2(m) + seq!['-'] + pad2(d) }

impl Sink {
    #[verifier::external_body]
    pub fn write_char(&mut self, c: char) -> (r: FmtResult)
        ensures r is Ok ==> final(self)@ == old(self)@.push(c),
    { unimplemented!() }
    #[verifier::external_body]
    pub fn write_str(&mut self, s: &str) -> (r: FmtResult)
        ensures r is Ok ==> final(self)@ == old(self)@ + s@,
    { unimplemented!() }
}
/// stand-in for writeable::Writeable: `text` is the canonical text of the value, write_to appends exactly it
pub trait Writeable {
    spec fn text(&self) -> Seq<char>;
    spec fn wf(&self) -> bool;
    fn write_to(&self, sink: &mut Sink) -> (r: FmtResult)
        requires self.wf(),
        ensures r is Ok ==> final(sink)@ == old(sink)@ + self.text();
}
// writeable's integer impls: minimal decimal digits (assumed contract on the external crate)
impl Writeable for u8 { open spec fn text(&self) -> Seq<char> { dec(*self as nat) } open spec fn wf(&self) -> bool { true }
    #[verifier::external_body] fn write_to(&self, sink: &mut Sink) -> (r: FmtResult) { unimplemented!() } }
impl Writeable for u32 { open spec fn text(&self) -> Seq<char> { dec(*self as nat) } open spec fn wf(&self) -> bool { true }
    #[verifier::external_body] fn write_to(&self, sink: &mut Sink) -> (r: FmtResult) { unimplemented!() } }
impl Writeable for u64 { open spec fn text(&self) -> Seq<char> { dec(*self as nat) } open spec fn wf(&self) -> bool { true }
    #[verifier::external_body] fn write_to(&self, sink: &mut Sink) -> (r: FmtResult) { unimplemented!() } }
impl Writeable for i32 { open spec fn text(&self) -> Seq<char> { if *self < 0 { seq!['-'] + dec((-(*self as int)) as nat) } else { dec(*self as nat) } } open spec fn wf(&self) -> bool { true }
    #[verifier::external_body] fn write_to(&self, sink: &mut Sink) -> (r: FmtResult) { unimplemented!() } }

pub proof fn lemma_dec_small(n: nat)
    requires n < 10,
    ensures dec(n) == seq![digit_char(n as int)],
{
}
pub proof fn lemma_dec_two(n: nat)
    requires 10 <= n < 100,
    ensures dec(n) == seq![digit_char((n / 10) as int), digit_char((n % 10) as int)],
{
    reveal_with_fuel(dec, 3);
    assert(dec(n) =~= seq![digit_char((n / 10) as int), digit_char((n % 10) as int)]);
}
