// E7 stand-ins: types that only pass through the code under contract.
// TemporalError keeps its `kind` (taken from the real ErrorKind enum, extracted below) and drops the message.
//@item src/error.rs :: enum ErrorKind
//@end

pub struct TemporalError { pub kind: ErrorKind }

impl TemporalError {
    pub fn range() -> (r: Self) ensures r.kind == ErrorKind::Range { TemporalError { kind: ErrorKind::Range } }
    pub fn r#type() -> (r: Self) ensures r.kind == ErrorKind::Type { TemporalError { kind: ErrorKind::Type } }
    pub fn syntax() -> (r: Self) ensures r.kind == ErrorKind::Syntax { TemporalError { kind: ErrorKind::Syntax } }
    pub fn assert() -> (r: Self) ensures r.kind == ErrorKind::Assert { TemporalError { kind: ErrorKind::Assert } }
    pub fn general(msg: &str) -> (r: Self) ensures r.kind == ErrorKind::Generic { TemporalError { kind: ErrorKind::Generic } }
    pub fn with_message(self, msg: &str) -> (r: Self) ensures r.kind == self.kind { self }
    pub fn kind(&self) -> (r: ErrorKind) ensures r == self.kind { self.kind }
}

pub type TemporalResult<T> = Result<T, TemporalError>;

pub open spec fn is_range_err<T>(r: Result<T, TemporalError>) -> bool {
    r is Err && r->Err_0.kind == ErrorKind::Range
}
pub open spec fn is_type_err<T>(r: Result<T, TemporalError>) -> bool {
    r is Err && r->Err_0.kind == ErrorKind::Type
}
/// an error that the API is allowed to return: never the internal-assertion kind
pub open spec fn is_api_err<T>(r: Result<T, TemporalError>) -> bool {
    r is Err && r->Err_0.kind != ErrorKind::Assert
}
