// E7 stand-ins for num_traits / core::num items that only pass values through.
// NonZeroU128: the value is kept; `new` returns None exactly for 0 (core's documented behaviour).
#[derive(Clone, Copy)]
pub struct NonZeroU128 { pub v: u128 }
impl NonZeroU128 {
    pub open spec fn wf(self) -> bool { self.v != 0 }
    #[verifier::external_body]
    pub fn new(n: u128) -> (r: Option<Self>)
        ensures n == 0 ==> r is None, n != 0 ==> r == Some(NonZeroU128 { v: n }),
    { unimplemented!() }
    #[verifier::external_body]
    pub fn get(self) -> (r: u128)
        ensures r == self.v,
    { unimplemented!() }
    /// checked_mul: None iff the product overflows u128
    #[verifier::external_body]
    pub fn checked_mul(self, other: Self) -> (r: Option<Self>)
        ensures self.v * other.v <= u128::MAX ==> r == Some(NonZeroU128 { v: (self.v * other.v) as u128 }),
                self.v * other.v > u128::MAX ==> r is None,
    { unimplemented!() }
}

/// crate::TemporalUnwrap for Option<T>: debug builds panic on None (debug_assert!), release builds return
/// the internal-assertion error. Both are forbidden by C03, hence the precondition.
pub trait TemporalUnwrap: Sized {
    type Output;
    spec fn unwrap_ok(self) -> bool;
    spec fn unwrap_val(self) -> Self::Output;
    fn temporal_unwrap(self) -> (r: TemporalResult<Self::Output>)
        requires self.unwrap_ok(),
        ensures r is Ok && r->Ok_0 == self.unwrap_val();
}
impl<T> TemporalUnwrap for Option<T> {
    type Output = T;
    open spec fn unwrap_ok(self) -> bool { self is Some }
    open spec fn unwrap_val(self) -> T { self->Some_0 }
    #[verifier::external_body]
    fn temporal_unwrap(self) -> (r: TemporalResult<T>) { unimplemented!() }
}

/// NonZeroU32 stand-in (RoundingIncrement wraps it)
#[derive(Clone, Copy, PartialEq, Eq, Structural)]
pub struct NonZeroU32 { pub v: u32 }
impl NonZeroU32 {
    pub const MIN: NonZeroU32 = NonZeroU32 { v: 1 };
    #[verifier::external_body]
    pub const fn get(self) -> (r: u32)
        ensures r == self.v,
    { unimplemented!() }
}
impl vstd::std_specs::convert::FromSpecImpl<NonZeroU32> for NonZeroU128 {
    open spec fn obeys_from_spec() -> bool { true }
    open spec fn from_spec(v: NonZeroU32) -> Self { NonZeroU128 { v: v.v as u128 } }
}
impl From<NonZeroU32> for NonZeroU128 {
    #[verifier::external_body]
    fn from(v: NonZeroU32) -> Self { unimplemented!() }
}

/// num_traits::FromPrimitive::from_i128 for i64: Some iff representable
pub trait FromPrimitive: Sized {
    spec fn fp_fits(v: int) -> bool;
    spec fn fp_val(self) -> int;
    fn from_i128(n: i128) -> (r: Option<Self>)
        ensures Self::fp_fits(n as int) ==> r is Some && r->Some_0.fp_val() == n,
                !Self::fp_fits(n as int) ==> r is None;
}
impl FromPrimitive for i64 {
    open spec fn fp_fits(v: int) -> bool { i64::MIN <= v <= i64::MAX }
    open spec fn fp_val(self) -> int { self as int }
    #[verifier::external_body]
    fn from_i128(n: i128) -> (r: Option<Self>) { unimplemented!() }
}
