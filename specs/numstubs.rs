// E7 stand-ins for num_traits / core::num items that only pass values through.
// NonZeroU128: the value is kept; `new` returns None exactly for 0 (core's documented behaviour).
#[derive(Clone, Copy)]
pub struct NonZeroU128 { pub v: u128 }
impl NonZeroU128 {
    pub open spec fn wf(self) -> bool { self.v != 0 }
    #[verifier::external_body]
    pub fn new(n: u128) -> (r: Option<Self>)
        ensures n == 0 ==> r is None, n != 0 ==> r == Some(NonZeroU128 { v: n }),
    { unimplemented!() }
    #[verifier::external_body]
    pub fn get(self) -> (r: u128)
        ensures r == self.v,
    { unimplemented!() }
    /// checked_mul: None iff the product overflows u128
    #[verifier::external_body]
    pub fn checked_mul(self, other: Self) -> (r: Option<Self>)
        ensures self.v * other.v <= u128::MAX ==> r == Some(NonZeroU128 { v: (self.v * other.v) as u128 }),
                self.v * other.v > u128::MAX ==> r is None,
    { unimplemented!() }
}

/// num_traits::ToPrimitive / NumCast restricted to the integer types used: `<X as NumCast>::from(n)` is
/// Some(n) iff n is representable in X.
pub trait ToPrimitive: Sized { spec fn as_int(self) -> int; }
impl ToPrimitive for u128 { open spec fn as_int(self) -> int { self as int } }
impl ToPrimitive for i128 { open spec fn as_int(self) -> int { self as int } }
impl ToPrimitive for u64 { open spec fn as_int(self) -> int { self as int } }
impl ToPrimitive for i64 { open spec fn as_int(self) -> int { self as int } }
pub trait NumCast: Sized {
    spec fn fits(v: int) -> bool;
    spec fn val(self) -> int;
    fn from<N: ToPrimitive>(n: N) -> (r: Option<Self>)
        ensures Self::fits(n.as_int()) ==> r is Some && r->Some_0.val() == n.as_int(),
                !Self::fits(n.as_int()) ==> r is None;
}
impl NumCast for i128 {
    open spec fn fits(v: int) -> bool { i128::MIN <= v <= i128::MAX }
    open spec fn val(self) -> int { self as int }
    #[verifier::external_body]
    fn from<N: ToPrimitive>(n: N) -> (r: Option<Self>) { unimplemented!() }
}
impl NumCast for u128 {
    open spec fn fits(v: int) -> bool { 0 <= v <= u128::MAX }
    open spec fn val(self) -> int { self as int }
    #[verifier::external_body]
    fn from<N: ToPrimitive>(n: N) -> (r: Option<Self>) { unimplemented!() }
}

/// crate::TemporalUnwrap for Option<T>: debug builds panic on None (debug_assert!), release builds return
/// the internal-assertion error. Both are forbidden by C03, hence the precondition.
pub trait TemporalUnwrap: Sized {
    type Output;
    spec fn unwrap_ok(self) -> bool;
    spec fn unwrap_val(self) -> Self::Output;
    fn temporal_unwrap(self) -> (r: TemporalResult<Self::Output>)
        requires self.unwrap_ok(),
        ensures r is Ok && r->Ok_0 == self.unwrap_val();
}
impl<T> TemporalUnwrap for Option<T> {
    type Output = T;
    open spec fn unwrap_ok(self) -> bool { self is Some }
    open spec fn unwrap_val(self) -> T { self->Some_0 }
    #[verifier::external_body]
    fn temporal_unwrap(self) -> (r: TemporalResult<T>) { unimplemented!() }
}
