// S-ROUND: RoundNumberToIncrement over the integers, written from the property statement:
// the result is x if inc | x, otherwise one of the two adjacent multiples lo < x < hi, chosen by the mode;
// half modes pick the nearer one (rational test 2r vs inc) and break ties as named; halfEven takes the even multiple.
pub open spec fn sabs(x: int) -> int { if x < 0 { -x } else { x } }

#[verifier::opaque]
pub open spec fn round_spec(x: int, inc: int, mode: RoundingMode) -> int
    recommends inc > 0
{
    let lo = (x / inc) * inc;           // floor multiple (Euclidean division, inc > 0)
    let r = x % inc;                    // 0 <= r < inc
    let hi = lo + inc;
    let away = if x >= 0 { hi } else { lo };
    let toward = if x >= 0 { lo } else { hi };
    let even = if (x / inc) % 2 == 0 { lo } else { hi };
    if r == 0 { x } else {
        match mode {
            RoundingMode::Ceil => hi,
            RoundingMode::Floor => lo,
            RoundingMode::Expand => away,
            RoundingMode::Trunc => toward,
            _ => if 2 * r < inc { lo } else if 2 * r > inc { hi } else {
                match mode {
                    RoundingMode::HalfCeil => hi,
                    RoundingMode::HalfFloor => lo,
                    RoundingMode::HalfExpand => away,
                    RoundingMode::HalfTrunc => toward,
                    _ => even,
                }
            }
        }
    }
}

pub open spec fn negate_mode(m: RoundingMode) -> RoundingMode {
    match m {
        RoundingMode::Ceil => RoundingMode::Floor,
        RoundingMode::Floor => RoundingMode::Ceil,
        RoundingMode::HalfCeil => RoundingMode::HalfFloor,
        RoundingMode::HalfFloor => RoundingMode::HalfCeil,
        RoundingMode::Trunc => RoundingMode::Trunc,
        RoundingMode::Expand => RoundingMode::Expand,
        RoundingMode::HalfTrunc => RoundingMode::HalfTrunc,
        RoundingMode::HalfExpand => RoundingMode::HalfExpand,
        RoundingMode::HalfEven => RoundingMode::HalfEven,
    }
}

/// unsigned core: quotient of a >= 0 by inc, moved up or not by the unsigned mode
pub open spec fn unsigned_spec(a: int, inc: int, m: UnsignedRoundingMode) -> int {
    let q = a / inc; let r = a % inc;
    if r == 0 { q } else { match m {
        UnsignedRoundingMode::Zero => q,
        UnsignedRoundingMode::Infinity => q + 1,
        _ => if 2 * r < inc { q } else if 2 * r > inc { q + 1 } else { match m {
            UnsignedRoundingMode::HalfZero => q,
            UnsignedRoundingMode::HalfInfinity => q + 1,
            _ => if q % 2 == 0 { q } else { q + 1 },
        }}
    }}
}

pub open spec fn um(mode: RoundingMode, pos: bool) -> UnsignedRoundingMode {
    match mode {
        RoundingMode::Ceil => if pos { UnsignedRoundingMode::Infinity } else { UnsignedRoundingMode::Zero },
        RoundingMode::Floor => if pos { UnsignedRoundingMode::Zero } else { UnsignedRoundingMode::Infinity },
        RoundingMode::Expand => UnsignedRoundingMode::Infinity,
        RoundingMode::Trunc => UnsignedRoundingMode::Zero,
        RoundingMode::HalfCeil => if pos { UnsignedRoundingMode::HalfInfinity } else { UnsignedRoundingMode::HalfZero },
        RoundingMode::HalfFloor => if pos { UnsignedRoundingMode::HalfZero } else { UnsignedRoundingMode::HalfInfinity },
        RoundingMode::HalfExpand => UnsignedRoundingMode::HalfInfinity,
        RoundingMode::HalfTrunc => UnsignedRoundingMode::HalfZero,
        RoundingMode::HalfEven => UnsignedRoundingMode::HalfEven,
    }
}

pub proof fn lemma_neg_mod(x: int, d: int)
    requires d > 0, x < 0,
    ensures ((-x) % d == 0) == (x % d == 0),
            x % d != 0 ==> (-x) % d == d - x % d && (-x) / d == -(x / d) - 1,
            x % d == 0 ==> (-x) / d == -(x / d),
{
    vstd::arithmetic::div_mod::lemma_fundamental_div_mod(x, d);
    let q = x / d; let r = x % d;
    if r == 0 {
        assert(-x == (-q) * d) by (nonlinear_arith) requires x == d * q;
        vstd::arithmetic::div_mod::lemma_fundamental_div_mod_converse(-x, d, -q, 0);
    } else {
        assert(-x == (-q - 1) * d + (d - r)) by (nonlinear_arith) requires x == d * q + r;
        vstd::arithmetic::div_mod::lemma_fundamental_div_mod_converse(-x, d, -q - 1, d - r);
    }
}

pub proof fn lemma_abs_mod_zero(x: int, d: int)
    requires d > 0,
    ensures (sabs(x) % d == 0) == (x % d == 0),
{
    if x < 0 { lemma_neg_mod(x, d); }
}

/// sign-magnitude implementation == the signed statement
pub proof fn lemma_round_sign(x: int, d: int, mode: RoundingMode)
    requires d > 0,
    ensures round_spec(x, d, mode) == (if x >= 0 { unsigned_spec(x, d, um(mode, true)) * d } else { -(unsigned_spec(-x, d, um(mode, false)) * d) }),
{
    reveal(round_spec);
    vstd::arithmetic::div_mod::lemma_fundamental_div_mod(x, d);
    let q = x / d; let r = x % d;
    if x >= 0 {
        assert((q + 1) * d == q * d + d) by (nonlinear_arith);
        assert(q * d == d * q) by (nonlinear_arith);
    } else {
        lemma_neg_mod(x, d);
        vstd::arithmetic::div_mod::lemma_fundamental_div_mod(-x, d);
        let qa = (-x) / d; let ra = (-x) % d;
        if r == 0 {
            assert(qa == -q);
            assert(-(qa * d) == x) by (nonlinear_arith) requires qa == -q, x == d * q;
        } else {
            assert(qa == -q - 1 && ra == d - r);
            assert(-(qa * d) == q * d + d) by (nonlinear_arith) requires qa == -q - 1;
            assert(-((qa + 1) * d) == q * d) by (nonlinear_arith) requires qa == -q - 1;
            assert((qa % 2 == 0) == (q % 2 != 0)) by {
                vstd::arithmetic::div_mod::lemma_fundamental_div_mod(q, 2); vstd::arithmetic::div_mod::lemma_fundamental_div_mod(qa, 2);
            }
        }
    }
}

/// what the statement promises about the result, derived from round_spec
pub proof fn lemma_round_adjacent(x: int, d: int, mode: RoundingMode)
    requires d > 0,
    ensures ({ let r = round_spec(x, d, mode);
        r % d == 0 && x - d < r < x + d && (x % d == 0 ==> r == x)
        && (r == (x / d) * d || r == (x / d) * d + d) }),
{
    reveal(round_spec);
    vstd::arithmetic::div_mod::lemma_fundamental_div_mod(x, d);
    let q = x / d;
    vstd::arithmetic::div_mod::lemma_mod_multiples_basic(q, d);
    vstd::arithmetic::div_mod::lemma_mod_multiples_basic(q + 1, d);
    assert((q + 1) * d == q * d + d) by (nonlinear_arith);
    assert(q * d == d * q) by (nonlinear_arith);
}

/// since() applies the mode as if negated: round(-x, negate(m)) == -round(x, m)
pub proof fn lemma_round_negate(x: int, d: int, mode: RoundingMode)
    requires d > 0,
    ensures round_spec(-x, d, negate_mode(mode)) == -round_spec(x, d, mode),
{
    reveal(round_spec);
    lemma_round_sign(x, d, mode);
    lemma_round_sign(-x, d, negate_mode(mode));
    if x == 0 {
    } else {
        // um(negate m, !pos) == um(m, pos)
        assert(um(negate_mode(mode), false) == um(mode, true));
        assert(um(negate_mode(mode), true) == um(mode, false));
    }
}

pub proof fn lemma_negate_involution(m: RoundingMode)
    ensures negate_mode(negate_mode(m)) == m,
{
}
