// Assumed contracts on `core` integer methods that vstd does not specify (listed in every evidence file
// as trusted base "core-int").  div_euclid/rem_euclid on signed types: Euclidean (remainder in [0,|b|)),
// which for b > 0 is exactly Verus' spec `/` and `%` on int.
pub assume_specification [<u32>::div_euclid] (a: u32, b: u32) -> (r: u32)
    requires b != 0,
    ensures r == a / b;
pub assume_specification [<u32>::rem_euclid] (a: u32, b: u32) -> (r: u32)
    requires b != 0,
    ensures r == a % b;
pub assume_specification [<u64>::div_euclid] (a: u64, b: u64) -> (r: u64)
    requires b != 0,
    ensures r == a / b;
pub assume_specification [<u64>::rem_euclid] (a: u64, b: u64) -> (r: u64)
    requires b != 0,
    ensures r == a % b;
pub assume_specification [<i32>::div_euclid] (a: i32, b: i32) -> (r: i32)
    requires b > 0,
    ensures r == (a as int) / (b as int);
pub assume_specification [<i32>::rem_euclid] (a: i32, b: i32) -> (r: i32)
    requires b > 0,
    ensures r == (a as int) % (b as int);
pub assume_specification [<i64>::div_euclid] (a: i64, b: i64) -> (r: i64)
    requires b > 0,
    ensures r == (a as int) / (b as int);
pub assume_specification [<i64>::rem_euclid] (a: i64, b: i64) -> (r: i64)
    requires b > 0,
    ensures r == (a as int) % (b as int);
pub assume_specification [<i128>::div_euclid] (a: i128, b: i128) -> (r: i128)
    requires b > 0,
    ensures r == (a as int) / (b as int);
pub assume_specification [<i128>::rem_euclid] (a: i128, b: i128) -> (r: i128)
    requires b > 0,
    ensures r == (a as int) % (b as int);
pub assume_specification [<i32>::abs] (a: i32) -> (r: i32)
    requires a != i32::MIN,
    ensures r == (if a < 0 { -(a as int) } else { a as int });
pub assume_specification [<i64>::abs] (a: i64) -> (r: i64)
    requires a != i64::MIN,
    ensures r == (if a < 0 { -(a as int) } else { a as int });
pub assume_specification [<i128>::abs] (a: i128) -> (r: i128)
    requires a != i128::MIN,
    ensures r == (if a < 0 { -(a as int) } else { a as int });

pub open spec fn ipow(b: int, e: nat) -> int decreases e { if e == 0 { 1 } else { b * ipow(b, (e - 1) as nat) } }
pub assume_specification [<i32>::pow] (a: i32, e: u32) -> (r: i32)
    requires i32::MIN <= ipow(a as int, e as nat) <= i32::MAX,
    ensures r == ipow(a as int, e as nat);
pub assume_specification [<i32>::unsigned_abs] (a: i32) -> (r: u32)
    ensures r == (if a < 0 { -(a as int) } else { a as int });
