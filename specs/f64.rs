// F-bridge (DESIGN §5): FiniteF64 is opaque to Verus. Its abstract view is `integral(x)` and, for integral x,
// the exact integer `fval(x)`. Every contract below is an ASSUMED contract on src/primitive.rs, restated as a
// Kani harness on the real methods (kani/f64_bridge.rs) - listed in trusted_base as "F-bridge".
#[derive(Default, Clone, Copy, PartialEq)]
pub struct FiniteF64(pub f64);

pub uninterp spec fn fval(x: FiniteF64) -> int;
pub uninterp spec fn integral(x: FiniteF64) -> bool;
/// the FiniteF64 holding integer v (exact for |v| <= 2^53)
pub uninterp spec fn f_of_int(v: int) -> FiniteF64;
pub open spec fn f_exact(v: int) -> bool { -9_007_199_254_740_992 <= v <= 9_007_199_254_740_992 }

pub broadcast proof fn ax_f_of_int(v: int)
    requires f_exact(v),
    ensures integral(#[trigger] f_of_int(v)), fval(f_of_int(v)) == v,
{ admit(); }

/// two integral doubles with the same integer value are the same double, except that +0 and -0 both map to 0
/// (the code never distinguishes them except through copysign, which is not under contract here)
pub open spec fn f_is(x: FiniteF64, v: int) -> bool { integral(x) && fval(x) == v }

impl FiniteF64 {
    #[verifier::external_body]
    pub fn as_date_value(&self) -> (r: TemporalResult<i32>)
        ensures integral(*self) && i32::MIN <= fval(*self) <= i32::MAX ==> r is Ok && r->Ok_0 == fval(*self),
                integral(*self) && !(i32::MIN <= fval(*self) <= i32::MAX) ==> is_range_err(r),
                r is Err ==> is_range_err(r),
    { unimplemented!() }

    #[verifier::external_body]
    pub fn checked_add(&self, other: &Self) -> (r: TemporalResult<Self>)
        ensures integral(*self) && integral(*other) && f_exact(fval(*self) + fval(*other)) ==> r is Ok && f_is(r->Ok_0, fval(*self) + fval(*other)),
                r is Err ==> is_range_err(r),
    { unimplemented!() }

    #[verifier::external_body]
    pub fn negate(&self) -> (r: Self)
        ensures integral(*self) ==> f_is(r, -fval(*self)),
    { unimplemented!() }

    #[verifier::external_body]
    pub fn abs(&self) -> (r: Self)
        ensures integral(*self) ==> f_is(r, if fval(*self) < 0 { -fval(*self) } else { fval(*self) }),
    { unimplemented!() }

    #[verifier::external_body]
    pub fn is_zero(&self) -> (r: bool)
        ensures integral(*self) ==> r == (fval(*self) == 0),
    { unimplemented!() }
}

pub assume_specification [<FiniteF64 as Default>::default] () -> (r: FiniteF64)
    ensures f_is(r, 0);

impl vstd::std_specs::convert::FromSpecImpl<i32> for FiniteF64 {
    open spec fn obeys_from_spec() -> bool { true }
    open spec fn from_spec(v: i32) -> Self { f_of_int(v as int) }
}
impl From<i32> for FiniteF64 { #[verifier::external_body] fn from(v: i32) -> Self { unimplemented!() } }
impl vstd::std_specs::convert::FromSpecImpl<u8> for FiniteF64 {
    open spec fn obeys_from_spec() -> bool { true }
    open spec fn from_spec(v: u8) -> Self { f_of_int(v as int) }
}
impl From<u8> for FiniteF64 { #[verifier::external_body] fn from(v: u8) -> Self { unimplemented!() } }
impl vstd::std_specs::convert::FromSpecImpl<u16> for FiniteF64 {
    open spec fn obeys_from_spec() -> bool { true }
    open spec fn from_spec(v: u16) -> Self { f_of_int(v as int) }
}
impl From<u16> for FiniteF64 { #[verifier::external_body] fn from(v: u16) -> Self { unimplemented!() } }
impl vstd::std_specs::convert::FromSpecImpl<i8> for FiniteF64 {
    open spec fn obeys_from_spec() -> bool { true }
    open spec fn from_spec(v: i8) -> Self { f_of_int(v as int) }
}
impl From<i8> for FiniteF64 { #[verifier::external_body] fn from(v: i8) -> Self { unimplemented!() } }

// ---- f64 <-> integer conversions used around FiniteF64 ----
/// integer value of a double produced from an integer (uninterpreted; only facts below are known)
pub uninterp spec fn f64_int(x: f64) -> int;
pub assume_specification [<f64 as From<i32>>::from] (v: i32) -> (r: f64)
    ensures f64_int(r) == v;
/// nearest double of a 128-bit integer (exact within 2^53)
pub uninterp spec fn f_of_i128(v: i128) -> FiniteF64;
pub broadcast proof fn ax_f_of_i128(v: i128)
    requires f_exact(v as int),
    ensures #[trigger] f_of_i128(v) == f_of_int(v as int),
{ admit(); }
impl vstd::std_specs::convert::TryFromSpecImpl<i128> for FiniteF64 {
    open spec fn obeys_try_from_spec() -> bool { true }
    open spec fn try_from_spec(v: i128) -> Result<Self, TemporalError> { Ok(f_of_i128(v)) }
}
impl TryFrom<i128> for FiniteF64 {
    type Error = TemporalError;
    #[verifier::external_body]
    fn try_from(v: i128) -> Result<Self, TemporalError> { unimplemented!() }
}
impl FiniteF64 {
    /// copysign with a sign carrier obtained from an integer: magnitude kept, sign of `other` (zero counts as positive)
    #[verifier::external_body]
    pub fn copysign(&self, other: f64) -> (r: Self)
        ensures integral(*self) ==> f_is(r, if fval(*self) == 0 { 0 } else if f64_int(other) < 0 { -(if fval(*self) < 0 { -fval(*self) } else { fval(*self) }) } else { if fval(*self) < 0 { -fval(*self) } else { fval(*self) } }),
    { unimplemented!() }
}
