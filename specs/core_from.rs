// unsigned -> wider signed conversions (vstd specifies only same-signedness widenings)
pub assume_specification [<i16 as From<u8>>::from] (a: u8) -> (r: i16) ensures r == a;
pub assume_specification [<i32 as From<u8>>::from] (a: u8) -> (r: i32) ensures r == a;
pub assume_specification [<i64 as From<u8>>::from] (a: u8) -> (r: i64) ensures r == a;
pub assume_specification [<i128 as From<u8>>::from] (a: u8) -> (r: i128) ensures r == a;
pub assume_specification [<i32 as From<u16>>::from] (a: u16) -> (r: i32) ensures r == a;
pub assume_specification [<i64 as From<u16>>::from] (a: u16) -> (r: i64) ensures r == a;
pub assume_specification [<i128 as From<u16>>::from] (a: u16) -> (r: i128) ensures r == a;
pub assume_specification [<i64 as From<u32>>::from] (a: u32) -> (r: i64) ensures r == a;
pub assume_specification [<i128 as From<u32>>::from] (a: u32) -> (r: i128) ensures r == a;
pub assume_specification [<i128 as From<u64>>::from] (a: u64) -> (r: i128) ensures r == a;
