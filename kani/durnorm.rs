// inject: src/builtins/core/duration/normalized.rs
// C06 / C09: NormalizeTimeDuration (NormalizedTimeDuration::from_time_duration) on the UNMODIFIED code - the contract
// Verus assumes for it (exact total of integral fields) - decided one field at a time over all integral doubles in the
// field's valid range, and as_fractional_days against the exact quotient.
use crate::builtins::core::duration::TimeDuration;
use crate::primitive::FiniteF64;

/// NormalizeTimeDuration, one field at a time: a duration whose only non-zero field is an arbitrary integral double
/// within that field's valid range normalises to exactly that many nanoseconds (no saturation, no rounding).
// bounded: one non-zero field per harness (the full six-field product of f64->i128 conversions times out in CBMC)
#[kani::proof]
fn c06_from_time_duration_ns() {
    let x: f64 = kani::any();
    kani::assume(x.is_finite() && x == x.trunc() && x.abs() < 9.0e24);
    let z = FiniteF64::default();
    let t = TimeDuration::new_unchecked(z, z, z, z, z, FiniteF64(x));
    kani::cover!(x > 1.0e19);
    let norm = NormalizedTimeDuration::from_time_duration(&t);
    assert!(norm.0 == x as i128);
    assert!((norm.0 as f64) == x);
}
// bounded: one non-zero field per harness
#[kani::proof]
fn c06_from_time_duration_us() {
    let x: f64 = kani::any();
    kani::assume(x.is_finite() && x == x.trunc() && x.abs() < 9.0e21);
    let z = FiniteF64::default();
    let t = TimeDuration::new_unchecked(z, z, z, z, FiniteF64(x), z);
    let norm = NormalizedTimeDuration::from_time_duration(&t);
    assert!(norm.0 == (x as i128) * 1_000);
}
// bounded: one non-zero field per harness
#[kani::proof]
fn c06_from_time_duration_hours() {
    let x: f64 = kani::any();
    kani::assume(x.is_finite() && x == x.trunc() && x.abs() < 2.5e12);
    let z = FiniteF64::default();
    let t = TimeDuration::new_unchecked(FiniteF64(x), z, z, z, z, z);
    let norm = NormalizedTimeDuration::from_time_duration(&t);
    assert!(norm.0 == (x as i128) * 3_600_000_000_000);
}

// bounded: one non-zero field per harness
#[kani::proof]
fn c06_from_time_duration_ms() {
    let x: f64 = kani::any();
    kani::assume(x.is_finite() && x == x.trunc() && x.abs() < 9.0e18);
    let z = FiniteF64::default();
    let t = TimeDuration::new_unchecked(z, z, z, FiniteF64(x), z, z);
    let norm = NormalizedTimeDuration::from_time_duration(&t);
    assert!(norm.0 == (x as i128) * 1_000_000);
}
// bounded: one non-zero field per harness
#[kani::proof]
fn c06_from_time_duration_seconds() {
    let x: f64 = kani::any();
    kani::assume(x.is_finite() && x == x.trunc() && x.abs() < 9.0e15);
    let z = FiniteF64::default();
    let t = TimeDuration::new_unchecked(z, z, FiniteF64(x), z, z, z);
    let norm = NormalizedTimeDuration::from_time_duration(&t);
    assert!(norm.0 == (x as i128) * 1_000_000_000);
}
// bounded: one non-zero field per harness
#[kani::proof]
fn c06_from_time_duration_minutes() {
    let x: f64 = kani::any();
    kani::assume(x.is_finite() && x == x.trunc() && x.abs() < 1.5e14);
    let z = FiniteF64::default();
    let t = TimeDuration::new_unchecked(z, FiniteF64(x), z, z, z, z);
    let norm = NormalizedTimeDuration::from_time_duration(&t);
    assert!(norm.0 == (x as i128) * 60_000_000_000);
}

/// as_fractional_days: whole days + remainder/day, the remainder taken Euclidean (0 <= frac < 1): the result lies between
/// floor(n / day) and floor(n / day) + 1 for every normalized duration, negative ones included
// bounded: |n| <= 2^56 ns (about 834 days; the full range does not terminate in CBMC); the final f64 sum is only bracketed, not compared exactly
// timeout: 300
#[kani::proof]
fn c09_as_fractional_days_brackets() {
    let n: i128 = kani::any();
    kani::assume(n >= -72_057_594_037_927_936 && n <= 72_057_594_037_927_936);
    let q = n.div_euclid(86_400_000_000_000);
    let r = NormalizedTimeDuration(n).as_fractional_days();
    kani::cover!(n < 0 && n % 86_400_000_000_000 != 0);
    assert!(r >= q as f64 && r <= (q + 1) as f64);
}
