// inject: src/builtins/core/duration.rs
// C09 / C02 / C06 float boundary: the functions that take the ten f64 duration fields, on the UNMODIFIED code,
// over all finite *integral* doubles (the statement speaks about durations with integral fields).
// Loop-free except where an unwind bound is stated.

fn vk_f() -> FiniteF64 {
    let x: f64 = kani::any();
    kani::assume(x.is_finite());
    kani::assume(x == x.trunc());
    FiniteF64(x)
}

/// exact integer value of an integral double, None when it is beyond `limit_pow2` bits (then it exceeds every limit)
fn vk_int(x: FiniteF64, limit: f64) -> Option<i128> {
    if x.0.abs() > limit { None } else { Some(x.0 as i128) }
}

const VK_P40: f64 = 1_099_511_627_776.0; // 2^40
const VK_P45: f64 = 35_184_372_088_832.0;
const VK_P50: f64 = 1_125_899_906_842_624.0;
const VK_P54: f64 = 18_014_398_509_481_984.0;
const VK_P64: f64 = 18_446_744_073_709_551_616.0;
const VK_P74: f64 = 18_889_465_931_478_580_854_784.0;
const VK_P84: f64 = 19_342_813_113_834_066_795_298_816.0;
const VK_LIMIT_NS: i128 = 9_007_199_254_740_992 * 1_000_000_000; // 2^53 s in ns

/// IsValidDuration from the statement: one sign, |years|,|months|,|weeks| < 2^32, |total time incl. days| < 2^53 s (exact)
fn vk_valid(f: [FiniteF64; 10]) -> bool {
    let mut pos = false;
    let mut neg = false;
    let mut k = 0;
    while k < 10 {
        if f[k].0 > 0.0 { pos = true; }
        if f[k].0 < 0.0 { neg = true; }
        k += 1;
    }
    if pos && neg { return false; }
    if f[0].0.abs() >= 4_294_967_296.0 || f[1].0.abs() >= 4_294_967_296.0 || f[2].0.abs() >= 4_294_967_296.0 { return false; }
    let (Some(d), Some(h), Some(mi), Some(s), Some(ms), Some(us), Some(ns)) = (vk_int(f[3], VK_P40), vk_int(f[4], VK_P45), vk_int(f[5], VK_P50),
        vk_int(f[6], VK_P54), vk_int(f[7], VK_P64), vk_int(f[8], VK_P74), vk_int(f[9], VK_P84)) else { return false; };
    let total = (((d * 24 + h) * 60 + mi) * 60 + s) * 1_000_000_000 + ms * 1_000_000 + us * 1_000 + ns;
    total.abs() < VK_LIMIT_NS
}

/// exactly representable integer field: |v| <= 2^53, handed to the code as the double of the same value
fn vk_i53() -> (FiniteF64, i128) {
    let v: i64 = kani::any();
    kani::assume(v >= -9_007_199_254_740_992 && v <= 9_007_199_254_740_992);
    (FiniteF64(v as f64), v as i128)
}
fn vk_valid_int(f: [i128; 10]) -> bool {
    let mut pos = false;
    let mut neg = false;
    let mut k = 0;
    while k < 10 { if f[k] > 0 { pos = true; } if f[k] < 0 { neg = true; } k += 1; }
    if pos && neg { return false; }
    if f[0].abs() >= 4_294_967_296 || f[1].abs() >= 4_294_967_296 || f[2].abs() >= 4_294_967_296 { return false; }
    let total = (((f[3] * 24 + f[4]) * 60 + f[5]) * 60 + f[6]) * 1_000_000_000 + f[7] * 1_000_000 + f[8] * 1_000 + f[9];
    total.abs() < VK_LIMIT_NS
}

// bounded: date fields only (time fields zero), |field| <= 2^53; the code's loop over its 10 fields is unwound 11 times with unwinding assertions on
#[kani::proof]
#[kani::unwind(11)]
fn c09_is_valid_duration_date_fields() {
    let (y, iy) = vk_i53();
    let (m, im) = vk_i53();
    let (w, iw) = vk_i53();
    let (d, id) = vk_i53();
    let z = FiniteF64::default();
    kani::cover!(true);
    let got = is_valid_duration(y, m, w, d, z, z, z, z, z, z);
    assert!(got == vk_valid_int([iy, im, iw, id, 0, 0, 0, 0, 0, 0]));
}

/// the statement's validity on the whole-second fields, computed in seconds (sub-second fields zero: no rounding question)
fn vk_valid_sec(d: i128, h: i128, mi: i128, s: i128) -> bool {
    if (d > 0 || h > 0 || mi > 0 || s > 0) && (d < 0 || h < 0 || mi < 0 || s < 0) { return false; }
    let total = d * 86_400 + h * 3_600 + mi * 60 + s;
    total.abs() < 9_007_199_254_740_992
}

// bounded: days, hours, minutes and seconds symbolic together (other fields zero), |field| <= 2^53, unwind 11 with unwinding assertions on
#[kani::proof]
#[kani::unwind(11)]
fn c09_is_valid_duration_dhms_fields() {
    let (d, id) = vk_i53();
    let (h, ih) = vk_i53();
    let (mi, imi) = vk_i53();
    let (s, is) = vk_i53();
    let z = FiniteF64::default();
    kani::cover!(true);
    let got = is_valid_duration(z, z, z, d, h, mi, s, z, z, z);
    assert!(got == vk_valid_sec(id, ih, imi, is));
}

// bounded: seconds and sub-second fields only (other fields zero), |field| <= 2^53, unwind 11 with unwinding assertions on
// timeout: 900
#[kani::proof]
#[kani::unwind(11)]
fn c09_is_valid_duration_subsecond_fields() {
    let (ms, ims) = vk_i53();
    let (us, ius) = vk_i53();
    let (ns, ins) = vk_i53();
    let z = FiniteF64::default();
    kani::cover!(true);
    let got = is_valid_duration(z, z, z, z, z, z, z, ms, us, ns);
    assert!(got == vk_valid_int([0, 0, 0, 0, 0, 0, 0, ims, ius, ins]));
}

/// a single huge finite field (up to f64::MAX) is rejected without overflow or panic
// bounded: one non-zero field per run (index symbolic), unwind 11 with unwinding assertions on
#[kani::proof]
#[kani::unwind(11)]
fn c09_is_valid_duration_huge_field() {
    let x: f64 = kani::any();
    kani::assume(x.is_finite() && x.abs() >= 1.0e25);
    let k: u8 = kani::any();
    kani::assume(k < 10);
    let z = FiniteF64::default();
    let mut f = [z; 10];
    f[k as usize] = FiniteF64(x);
    assert!(!is_valid_duration(f[0], f[1], f[2], f[3], f[4], f[5], f[6], f[7], f[8], f[9]));
}

/// a huge finite field next to a small non-zero field of the same sign: still rejected, and no overflow in the exact
/// arithmetic that follows the per-field guard
// bounded: one huge field (index symbolic) and one field with |value| <= 1000 (index symbolic), unwind 11 with unwinding assertions on
#[kani::proof]
#[kani::unwind(11)]
fn c09_is_valid_duration_huge_plus_small() {
    let x: f64 = kani::any();
    kani::assume(x.is_finite() && x.abs() >= 1.0e25);
    let y: i16 = kani::any();
    kani::assume(y != 0 && y >= -1000 && y <= 1000 && ((y > 0) == (x > 0.0)));
    let k: u8 = kani::any();
    let j: u8 = kani::any();
    kani::assume(k < 10 && j < 10 && j != k);
    let z = FiniteF64::default();
    let mut f = [z; 10];
    f[k as usize] = FiniteF64(x);
    f[j as usize] = FiniteF64(y as f64);
    assert!(!is_valid_duration(f[0], f[1], f[2], f[3], f[4], f[5], f[6], f[7], f[8], f[9]));
}

/// the 2^53 s boundary with a sub-second part: a whole-second total of exactly +-(2^53 - 1) s stays valid for every
/// sub-second part below one second in magnitude (both signs alike), and +-2^53 s is never valid
// bounded: seconds in {+-(2^53-1), +-2^53}, sub-second fields with |value| < 1000 each, unwind 11 with unwinding assertions on
#[kani::proof]
#[kani::unwind(11)]
fn c09_is_valid_duration_boundary_subsecond() {
    let neg: bool = kani::any();
    let at_limit: bool = kani::any();
    let (ms, us, ns): (i16, i16, i16) = (kani::any(), kani::any(), kani::any());
    kani::assume(ms >= 0 && ms < 1000 && us >= 0 && us < 1000 && ns >= 0 && ns < 1000);
    let sg = if neg { -1.0 } else { 1.0 };
    let s = if at_limit { 9_007_199_254_740_992.0 } else { 9_007_199_254_740_991.0 };
    let z = FiniteF64::default();
    kani::cover!(neg && !at_limit && ns > 0);
    let got = is_valid_duration(z, z, z, z, z, z, FiniteF64(sg * s), FiniteF64(sg * ms as f64), FiniteF64(sg * us as f64), FiniteF64(sg * ns as f64));
    assert!(got == !at_limit);
}

/// the same boundary when the sub-second fields only TOGETHER reach whole seconds: the carry between them counts
/// (seconds = +-(2^53 - 1 - d), d in 0..=3; milliseconds up to 2 s, microseconds up to 2 s, nanoseconds up to 2 s worth)
// bounded: seconds within 4 of the limit, each sub-second field worth at most 2 s, unwind 11 with unwinding assertions on
#[kani::proof]
#[kani::unwind(11)]
fn c09_is_valid_duration_boundary_carry() {
    let neg: bool = kani::any();
    let d: u8 = kani::any();
    kani::assume(d <= 3);
    let ms: i64 = kani::any(); let us: i64 = kani::any(); let ns: i64 = kani::any();
    kani::assume(ms >= 0 && ms <= 2_000 && us >= 0 && us <= 2_000_000 && ns >= 0 && ns <= 2_000_000_000);
    let sg = if neg { -1.0 } else { 1.0 };
    let s = 9_007_199_254_740_991.0 - d as f64;
    let z = FiniteF64::default();
    let sub_ns: i64 = ms * 1_000_000 + us * 1_000 + ns;
    let whole = sub_ns / 1_000_000_000;
    kani::cover!(whole == 1 && ms < 1000 && us < 1_000_000 && ns < 1_000_000_000);
    let got = is_valid_duration(z, z, z, z, z, z, FiniteF64(sg * s), FiniteF64(sg * ms as f64), FiniteF64(sg * us as f64), FiniteF64(sg * ns as f64));
    assert!(got == (whole <= d as i64));
}

// ---- F-bridge: the contracts Verus assumes on src/primitive.rs (specs/f64.rs), proved on the real methods ----

/// as_date_value: integral x in i32 range -> Ok(x); integral x outside -> RangeError
#[kani::proof]
fn fb_as_date_value() {
    let x = vk_f();
    let r = x.as_date_value();
    if x.0 >= -2_147_483_648.0 && x.0 <= 2_147_483_647.0 {
        assert!(r.is_ok() && (r.unwrap() as f64) == x.0);
    } else {
        assert!(r.is_err() && r.unwrap_err().kind() == crate::error::ErrorKind::Range);
    }
}

// (checked_add on symbolic doubles does not terminate in CBMC within 10 min with any bundled SAT solver: the F-bridge
// contract of FiniteF64::checked_add stays an assumption, listed in the evidence)

/// negate / abs / is_zero on integral values
#[kani::proof]
fn fb_negate_abs() {
    let a = vk_f();
    kani::assume(a.0.abs() <= 1.0e30);
    let n = a.negate();
    assert!(n.0 == n.0.trunc() && (n.0 as i128) == -(a.0 as i128));
    let b = a.abs();
    assert!(b.0 == b.0.trunc() && (b.0 as i128) == (a.0 as i128).abs());
    assert!(a.is_zero() == ((a.0 as i128) == 0));
    let d = FiniteF64::default();
    assert!(d.0 == 0.0);
}

/// From<i32>/From<u8>/From<u16>: exact
#[kani::proof]
fn fb_from_ints() {
    let i: i32 = kani::any();
    let f = FiniteF64::from(i);
    assert!(f.0 == f.0.trunc() && (f.0 as i64) == i as i64);
    let u: u16 = kani::any();
    let g = FiniteF64::from(u);
    assert!((g.0 as i64) == u as i64 && g.0 == g.0.trunc());
    let b: u8 = kani::any();
    let h = FiniteF64::from(b);
    assert!((h.0 as i64) == b as i64);
}

/// Duration sign/negation on integral fields: negated flips every field, sign is the common sign
// bounded: iterates the 10 fields; unwind 11 with unwinding assertions on, hence complete
#[kani::proof]
#[kani::unwind(11)]
fn c09_sign_negated() {
    let f = [vk_f(), vk_f(), vk_f(), vk_f(), vk_f(), vk_f(), vk_f(), vk_f(), vk_f(), vk_f()];
    let d = Duration::new_unchecked(DateDuration::new_unchecked(f[0], f[1], f[2], f[3]), TimeDuration::new_unchecked(f[4], f[5], f[6], f[7], f[8], f[9]));
    let mut first: i8 = 0;
    let mut k = 0;
    while k < 10 {
        if first == 0 { if f[k].0 > 0.0 { first = 1; } else if f[k].0 < 0.0 { first = -1; } }
        k += 1;
    }
    assert!(d.sign() as i8 == first);
    let n = d.negated();
    assert!(n.years().0 == -f[0].0 || (f[0].0 == 0.0 && n.years().0 == 0.0));
    assert!(n.nanoseconds().0 == -f[9].0 || (f[9].0 == 0.0 && n.nanoseconds().0 == 0.0));
    assert!(n.sign() as i8 == -first);
    assert!(d.is_zero() == (first == 0));
}

/// DefaultTemporalLargestUnit: the unit of the first non-zero field, nanosecond for the zero duration
/// (the contract Verus assumes for Duration::default_largest_unit in unit durcore)
// bounded: iterates the 10 fields; unwind 11 with unwinding assertions on, hence complete
#[kani::proof]
#[kani::unwind(11)]
fn c09_default_largest_unit() {
    let f = [vk_f(), vk_f(), vk_f(), vk_f(), vk_f(), vk_f(), vk_f(), vk_f(), vk_f(), vk_f()];
    let d = Duration::new_unchecked(DateDuration::new_unchecked(f[0], f[1], f[2], f[3]), TimeDuration::new_unchecked(f[4], f[5], f[6], f[7], f[8], f[9]));
    let units = [Unit::Year, Unit::Month, Unit::Week, Unit::Day, Unit::Hour, Unit::Minute, Unit::Second, Unit::Millisecond, Unit::Microsecond, Unit::Nanosecond];
    let mut want = Unit::Nanosecond;
    let mut k = 10;
    while k > 0 {
        k -= 1;
        if f[k].0 != 0.0 { want = units[k]; }
    }
    kani::cover!(want == Unit::Week);
    assert!(d.default_largest_unit() == want);
}
