// inject: temporal_capi/src/instant.rs
// package: temporal_capi
// C19: FFI Instant - the (high, low) pair is the sign-and-magnitude split the type documents ("the sign is extracted first
// before appending the high/low segments"): value = sign(high) * (|high| * 2^64 + low).  Loop-free over all pairs: complete.

fn vk_i128_of(high: i64, low: u64) -> i128 {
    let mag = ((high.unsigned_abs() as u128) << 64) + low as u128;
    if high < 0 { -(mag as i128) } else { mag as i128 }
}

/// try_new assembles the documented value and returns what the core constructor returns for it
#[kani::proof]
fn c19_ffi_instant_try_new() {
    let high: i64 = kani::any();
    let low: u64 = kani::any();
    kani::assume(high > i64::MIN);
    let want = vk_i128_of(high, low);
    let core = temporal_rs::Instant::try_new(want);
    let f = ffi::Instant::try_new(ffi::I128Nanoseconds { high, low });
    kani::cover!(f.is_ok() && low > 1_000_000_000_000_000_000);
    assert!(core.is_ok() == f.is_ok());
    if let (Ok(c), Ok(f)) = (core, f) { assert!(f.0 == c); }
}

/// epoch_nanoseconds splits the core value back into the documented pair, for every instant that the pair can represent
/// (magnitude >= 2^64 or value >= 0)
#[kani::proof]
fn c19_ffi_instant_epoch_nanoseconds() {
    let x: i128 = kani::any();
    kani::assume(x >= -8_640_000_000_000_000_000_000 && x <= 8_640_000_000_000_000_000_000);
    kani::assume(x >= 0 || x <= -18_446_744_073_709_551_616);
    let f = ffi::Instant(temporal_rs::Instant::try_new(x).unwrap());
    let e = f.epoch_nanoseconds();
    kani::cover!(x < 0);
    assert!(vk_i128_of(e.high, e.low) == x);
}

/// RESIDUAL of a recorded known finding: negative instants above -2^64 ns (the 18.4 s before the epoch) have high == 0,
/// so the sign is lost in the pair.  Expected to fail; kept as a separately named obligation.
#[kani::proof]
fn c19_ffi_instant_epoch_nanoseconds_small_negative_residual() {
    let x: i128 = kani::any();
    kani::assume(x < 0 && x > -18_446_744_073_709_551_616);
    let f = ffi::Instant(temporal_rs::Instant::try_new(x).unwrap());
    let e = f.epoch_nanoseconds();
    assert!(vk_i128_of(e.high, e.low) == x);
}
