// inject: src/options.rs
// C10: the option resolvers of src/options.rs on the UNMODIFIED code, symbolic over the whole option space
// (both units, mode, every increment 1..=1e9, operation) against S-OPT written from the property statement.
// All harnesses are loop-free over full domains: a pass is a complete proof, not a bounded one.

fn vk_unit(k: u8) -> Unit {
    match k {
        0 => Unit::Auto, 1 => Unit::Nanosecond, 2 => Unit::Microsecond, 3 => Unit::Millisecond, 4 => Unit::Second,
        5 => Unit::Minute, 6 => Unit::Hour, 7 => Unit::Day, 8 => Unit::Week, 9 => Unit::Month, _ => Unit::Year,
    }
}
fn vk_rank(u: Unit) -> u8 {
    match u {
        Unit::Auto => 0, Unit::Nanosecond => 1, Unit::Microsecond => 2, Unit::Millisecond => 3, Unit::Second => 4,
        Unit::Minute => 5, Unit::Hour => 6, Unit::Day => 7, Unit::Week => 8, Unit::Month => 9, Unit::Year => 10,
    }
}
fn vk_any_unit() -> Unit { let k: u8 = kani::any(); kani::assume(k <= 10); vk_unit(k) }
fn vk_any_opt_unit() -> Option<Unit> { if kani::any() { Some(vk_any_unit()) } else { None } }
fn vk_mode(k: u8) -> RoundingMode {
    match k {
        0 => RoundingMode::Ceil, 1 => RoundingMode::Floor, 2 => RoundingMode::Expand, 3 => RoundingMode::Trunc, 4 => RoundingMode::HalfCeil,
        5 => RoundingMode::HalfFloor, 6 => RoundingMode::HalfExpand, 7 => RoundingMode::HalfTrunc, _ => RoundingMode::HalfEven,
    }
}
fn vk_mode_id(m: RoundingMode) -> u8 {
    match m {
        RoundingMode::Ceil => 0, RoundingMode::Floor => 1, RoundingMode::Expand => 2, RoundingMode::Trunc => 3, RoundingMode::HalfCeil => 4,
        RoundingMode::HalfFloor => 5, RoundingMode::HalfExpand => 6, RoundingMode::HalfTrunc => 7, RoundingMode::HalfEven => 8,
    }
}
/// the statement: "since negates the mode" (ceil<->floor, halfCeil<->halfFloor, others unchanged)
fn vk_negate(k: u8) -> u8 { match k { 0 => 1, 1 => 0, 4 => 5, 5 => 4, x => x } }
fn vk_any_opt_mode() -> Option<u8> { if kani::any() { let k: u8 = kani::any(); kani::assume(k <= 8); Some(k) } else { None } }
fn vk_any_opt_inc() -> Option<u32> { if kani::any() { let v: u32 = kani::any(); kani::assume(v >= 1 && v <= 1_000_000_000); Some(v) } else { None } }
fn vk_inc(v: Option<u32>) -> Option<RoundingIncrement> { v.map(|x| RoundingIncrement::try_new(x).unwrap()) }

/// unit groups: 0 = date, 1 = time, 2 = date-time.  `auto` belongs to no group.
fn vk_in_group(g: u8, u: Unit) -> bool {
    let r = vk_rank(u);
    match g { 0 => r >= 7, 1 => r >= 1 && r <= 6, _ => r >= 1 }
}
fn vk_group(g: u8) -> UnitGroup { match g { 0 => UnitGroup::Date, 1 => UnitGroup::Time, _ => UnitGroup::DateTime } }
/// MaximumTemporalDurationRoundingIncrement
fn vk_max_inc(u: Unit) -> Option<u64> {
    match u { Unit::Hour => Some(24), Unit::Minute | Unit::Second => Some(60), Unit::Millisecond | Unit::Microsecond | Unit::Nanosecond => Some(1000), _ => None }
}
fn vk_inc_ok(inc: u32, max: u64, inclusive: bool) -> bool {
    let inc = inc as u64;
    (if inclusive { inc <= max } else { inc < max }) && max % inc == 0
}

/// GetDifferenceSettings from the statement. None = RangeError.
fn vk_expected_diff(largest: Option<Unit>, smallest: Option<Unit>, mode: Option<u8>, inc: Option<u32>, since: bool, g: u8, fb_largest: Unit, fb_smallest: Unit) -> Option<(Unit, Unit, u32, u8)> {
    if let Some(l) = largest { if vk_rank(l) != 0 && !vk_in_group(g, l) { return None; } }
    if let Some(s) = smallest { if !vk_in_group(g, s) { return None; } }
    let inc = inc.unwrap_or(1);
    let mode = mode.unwrap_or(3);
    let mode = if since { vk_negate(mode) } else { mode };
    let s = smallest.unwrap_or(fb_smallest);
    let default_largest = if vk_rank(fb_largest) > vk_rank(s) { fb_largest } else { s };
    let l = match largest { None => default_largest, Some(u) => if vk_rank(u) == 0 { default_largest } else { u } };
    if vk_rank(l) < vk_rank(s) { return None; }
    if let Some(max) = vk_max_inc(s) { if !vk_inc_ok(inc, max, false) { return None; } }
    Some((l, s, inc, mode))
}

fn vk_check_diff(g: u8, fb_largest: Unit, fb_smallest: Unit) {
    let largest = vk_any_opt_unit();
    let smallest = vk_any_opt_unit();
    let mode = vk_any_opt_mode();
    let inc = vk_any_opt_inc();
    let since: bool = kani::any();
    let mut settings = DifferenceSettings::default();
    settings.largest_unit = largest;
    settings.smallest_unit = smallest;
    settings.rounding_mode = mode.map(vk_mode);
    settings.increment = vk_inc(inc);
    kani::cover!(true);
    let op = if since { DifferenceOperation::Since } else { DifferenceOperation::Until };
    let got = ResolvedRoundingOptions::from_diff_settings(settings, op, vk_group(g), fb_largest, fb_smallest);
    let want = vk_expected_diff(largest, smallest, mode, inc, since, g, fb_largest, fb_smallest);
    match (got, want) {
        (Ok(r), Some((l, s, i, m))) => {
            assert!(vk_rank(r.largest_unit) == vk_rank(l));
            assert!(vk_rank(r.smallest_unit) == vk_rank(s));
            assert!(r.increment.get() == i);
            assert!(vk_mode_id(r.rounding_mode) == m);
        }
        (Err(e), None) => assert!(e.kind() == crate::error::ErrorKind::Range),
        (Ok(_), None) => assert!(false, "accepted a combination Temporal rejects"),
        (Err(_), Some(_)) => assert!(false, "rejected a combination Temporal allows"),
    }
}

#[kani::proof]
fn c10_diff_date() { vk_check_diff(0, Unit::Day, Unit::Day); }
#[kani::proof]
fn c10_diff_time() { vk_check_diff(1, Unit::Hour, Unit::Nanosecond); }
#[kani::proof]
fn c10_diff_datetime() { vk_check_diff(2, Unit::Day, Unit::Nanosecond); }
#[kani::proof]
fn c10_diff_instant() { vk_check_diff(1, Unit::Second, Unit::Nanosecond); }
#[kani::proof]
fn c10_diff_zoned() { vk_check_diff(2, Unit::Hour, Unit::Nanosecond); }
#[kani::proof]
fn c10_diff_year_month() { vk_check_diff(0, Unit::Year, Unit::Month); }

/// Duration.prototype.round option resolution
#[kani::proof]
fn c10_duration_options() {
    let largest = vk_any_opt_unit();
    let smallest = vk_any_opt_unit();
    let mode = vk_any_opt_mode();
    let inc = vk_any_opt_inc();
    let existing = vk_any_unit();
    kani::assume(vk_rank(existing) != 0);
    let options = RoundingOptions { largest_unit: largest, smallest_unit: smallest, rounding_mode: mode.map(vk_mode), increment: vk_inc(inc) };
    kani::cover!(true);
    let got = ResolvedRoundingOptions::from_duration_options(options, existing);
    let want = (|| {
        if largest.is_none() && smallest.is_none() { return None; }
        if let Some(s) = smallest { if vk_rank(s) == 0 { return None; } }
        let i = inc.unwrap_or(1);
        let m = mode.unwrap_or(6);
        let s = smallest.unwrap_or(Unit::Nanosecond);
        let dl = if vk_rank(existing) > vk_rank(s) { existing } else { s };
        let l = match largest { None => dl, Some(u) => if vk_rank(u) == 0 { dl } else { u } };
        if vk_rank(l) < vk_rank(s) { return None; }
        if let Some(max) = vk_max_inc(s) { if !vk_inc_ok(i, max, false) { return None; } }
        Some((l, s, i, m))
    })();
    match (got, want) {
        (Ok(r), Some((l, s, i, m))) => {
            assert!(vk_rank(r.largest_unit) == vk_rank(l));
            assert!(vk_rank(r.smallest_unit) == vk_rank(s));
            assert!(r.increment.get() == i);
            assert!(vk_mode_id(r.rounding_mode) == m);
        }
        (Err(e), None) => assert!(e.kind() == crate::error::ErrorKind::Range),
        (Ok(_), None) => assert!(false, "accepted a combination Temporal rejects"),
        (Err(_), Some(_)) => assert!(false, "rejected a combination Temporal allows"),
    }
}

/// PlainDateTime.prototype.round: smallestUnit required, time unit or day; day only with increment 1
#[kani::proof]
fn c10_datetime_options() {
    let smallest = vk_any_opt_unit();
    let largest = vk_any_opt_unit();
    let mode = vk_any_opt_mode();
    let inc = vk_any_opt_inc();
    let options = RoundingOptions { largest_unit: largest, smallest_unit: smallest, rounding_mode: mode.map(vk_mode), increment: vk_inc(inc) };
    kani::cover!(true);
    let got = ResolvedRoundingOptions::from_datetime_options(options);
    let want = (|| {
        let s = smallest?;
        let r = vk_rank(s);
        if !(r >= 1 && r <= 7) { return None; }
        let i = inc.unwrap_or(1);
        if r == 7 { if i != 1 { return None; } } else if !vk_inc_ok(i, vk_max_inc(s).unwrap(), false) { return None; }
        Some((s, i, mode.unwrap_or(6)))
    })();
    match (got, want) {
        (Ok(r), Some((s, i, m))) => {
            assert!(vk_rank(r.smallest_unit) == vk_rank(s));
            assert!(r.increment.get() == i);
            assert!(vk_mode_id(r.rounding_mode) == m);
        }
        (Err(e), None) => assert!(e.kind() == crate::error::ErrorKind::Range),
        (Ok(_), None) => assert!(false, "accepted a combination Temporal rejects"),
        (Err(_), Some(_)) => assert!(false, "rejected a combination Temporal allows"),
    }
}

/// Instant.prototype.round: time unit required; increment divides the day length (inclusive).
/// One harness per smallest unit (constant dividend keeps the bit-vector remainder tractable); together with
/// c10_instant_units_rejected they cover every unit, every mode and every increment 1..=1e9.
#[allow(dead_code)]
fn vk_check_instant(s: Unit, max: u64) {
    let mode = vk_any_opt_mode();
    let inc = vk_any_opt_inc();
    let options = RoundingOptions { largest_unit: None, smallest_unit: Some(s), rounding_mode: mode.map(vk_mode), increment: vk_inc(inc) };
    kani::cover!(true);
    let got = ResolvedRoundingOptions::from_instant_options(options);
    let i = inc.unwrap_or(1);
    match got {
        Ok(r) => {
            assert!(vk_inc_ok(i, max, true));
            assert!(vk_rank(r.smallest_unit) == vk_rank(s));
            assert!(r.increment.get() == i);
            assert!(vk_mode_id(r.rounding_mode) == mode.unwrap_or(6));
        }
        Err(e) => { assert!(!vk_inc_ok(i, max, true)); assert!(e.kind() == crate::error::ErrorKind::Range); }
    }
}
// (the per-unit increment checks for Instant.round are discharged by Verus, unit `options`: 64-bit remainders by a
// symbolic divisor with dividends up to 8.64e13 time out in CBMC)
/// missing unit, auto and date units are RangeErrors
#[kani::proof]
fn c10_instant_units_rejected() {
    let smallest = vk_any_opt_unit();
    if let Some(s) = smallest { kani::assume(!(vk_rank(s) >= 1 && vk_rank(s) <= 6)); }
    let options = RoundingOptions { largest_unit: None, smallest_unit: smallest, rounding_mode: vk_any_opt_mode().map(vk_mode), increment: vk_inc(vk_any_opt_inc()) };
    kani::cover!(true);
    match ResolvedRoundingOptions::from_instant_options(options) {
        Ok(_) => assert!(false, "accepted a unit Temporal rejects"),
        Err(e) => assert!(e.kind() == crate::error::ErrorKind::Range),
    }
}

/// toString precision options: fractionalSecondDigits 0..=9 / auto, smallestUnit minute..nanosecond
// bounded: u32::pow loop unwound 8 times with unwinding assertions on (exponent <= 2): complete when they pass
#[kani::proof]
#[kani::unwind(8)]
fn c10_to_string_options() {
    let smallest = vk_any_opt_unit();
    let mode = vk_any_opt_mode();
    let pk: u8 = kani::any();
    let digit: u8 = kani::any();
    let precision = match pk % 3 { 0 => Precision::Auto, 1 => Precision::Minute, _ => Precision::Digit(digit) };
    let options = ToStringRoundingOptions { precision, smallest_unit: smallest, rounding_mode: mode.map(vk_mode) };
    kani::cover!(true);
    let got = options.resolve();
    // (smallest unit, increment in that unit, precision) per the statement
    let want: Option<(Unit, u32, Precision)> = match smallest {
        Some(Unit::Minute) => Some((Unit::Minute, 1, Precision::Minute)),
        Some(Unit::Second) => Some((Unit::Second, 1, Precision::Digit(0))),
        Some(Unit::Millisecond) => Some((Unit::Millisecond, 1, Precision::Digit(3))),
        Some(Unit::Microsecond) => Some((Unit::Microsecond, 1, Precision::Digit(6))),
        Some(Unit::Nanosecond) => Some((Unit::Nanosecond, 1, Precision::Digit(9))),
        Some(_) => None,
        None => match precision {
            Precision::Auto => Some((Unit::Nanosecond, 1, Precision::Auto)),
            Precision::Minute => None,
            Precision::Digit(0) => Some((Unit::Second, 1, Precision::Digit(0))),
            Precision::Digit(d) if d <= 3 => Some((Unit::Millisecond, [100, 10, 1][(d - 1) as usize], Precision::Digit(d))),
            Precision::Digit(d) if d <= 6 => Some((Unit::Microsecond, [100, 10, 1][(d - 4) as usize], Precision::Digit(d))),
            Precision::Digit(d) if d <= 9 => Some((Unit::Nanosecond, [100, 10, 1][(d - 7) as usize], Precision::Digit(d))),
            Precision::Digit(_) => None,
        },
    };
    match (got, want) {
        (Ok(r), Some((s, i, p))) => {
            assert!(vk_rank(r.smallest_unit) == vk_rank(s));
            assert!(r.increment.get() == i);
            assert!(r.precision == p);
            assert!(vk_mode_id(r.rounding_mode) == mode.unwrap_or(3));
        }
        (Err(e), None) => assert!(e.kind() == crate::error::ErrorKind::Range),
        (Ok(_), None) => assert!(false, "accepted a precision/unit Temporal rejects"),
        (Err(_), Some(_)) => assert!(false, "rejected a precision/unit Temporal allows"),
    }
}

/// RoundingIncrement::try_new: exactly 1..=1e9
#[kani::proof]
fn c10_increment_try_new() {
    let v: u32 = kani::any();
    let r = RoundingIncrement::try_new(v);
    assert!(r.is_ok() == (v >= 1 && v <= 1_000_000_000));
    if let Ok(inc) = r { assert!(inc.get() == v); }
}
/// RoundingIncrement::try_from(f64): a finite value whose integer part lies in 1..=1e9 is accepted as that integer part;
/// everything else (NaN, infinities, below 1, above 1e9) is a RangeError
/// (the contract Verus assumes for it in unit timecore: inc_of_f64)
#[kani::proof]
fn c10_increment_try_from_f64() {
    let v: f64 = kani::any();
    let r = RoundingIncrement::try_from(v);
    let accepted = v.is_finite() && v >= 1.0 && v < 1_000_000_001.0;
    assert!(r.is_ok() == accepted);
    match r {
        Ok(inc) => { let g = inc.get() as f64; assert!(g <= v && v < g + 1.0); assert!(inc.get() >= 1 && inc.get() <= 1_000_000_000); }
        Err(e) => assert!(e.kind() == crate::error::ErrorKind::Range),
    }
}
/// validate(dividend, inclusive) = within and dividing, for the maxima of Temporal's unit table
#[kani::proof]
fn c10_increment_validate_small() {
    let v: u32 = kani::any();
    kani::assume(v >= 1 && v <= 1_000_000_000);
    let inc = RoundingIncrement::try_new(v).unwrap();
    let k: u8 = kani::any();
    let dividend: u64 = match k % 4 { 0 => 24, 1 => 60, 2 => 1000, _ => 1 };
    let inclusive: bool = kani::any();
    kani::assume(dividend > 1 || inclusive);
    assert!(inc.validate(dividend, inclusive).is_ok() == vk_inc_ok(v, dividend, inclusive));
}

/// Unit tables: no panic for any non-auto unit, values as in Temporal's table
#[kani::proof]
fn c10_unit_tables() {
    let u = vk_any_unit();
    kani::assume(vk_rank(u) != 0);
    assert!(u.to_maximum_rounding_increment().map(|x| x as u64) == vk_max_inc(u));
    let ns = u.as_nanoseconds();
    let want = match u { Unit::Day => Some(86_400_000_000_000u64), Unit::Hour => Some(3_600_000_000_000), Unit::Minute => Some(60_000_000_000), Unit::Second => Some(1_000_000_000),
        Unit::Millisecond => Some(1_000_000), Unit::Microsecond => Some(1_000), Unit::Nanosecond => Some(1), _ => None };
    assert!(ns == want);
    assert!(u.is_time_unit() == (vk_rank(u) >= 1 && vk_rank(u) <= 6));
    assert!(u.is_date_unit() == (vk_rank(u) >= 7));
    assert!(u.is_calendar_unit() == (vk_rank(u) >= 8));
}
