// inject: temporal_capi/src/plain_time.rs
// package: temporal_capi
// C19: FFI PlainTime - every accessor is wired to its own field, create/try_create return what the core constructor
// returns, and the partial record lands field by field.  Loop-free over all field values: complete proofs.

fn vk_time_fields() -> (u8, u8, u8, u16, u16, u16) {
    let (h, mi, s): (u8, u8, u8) = (kani::any(), kani::any(), kani::any());
    let (ms, us, ns): (u16, u16, u16) = (kani::any(), kani::any(), kani::any());
    (h, mi, s, ms, us, ns)
}

#[kani::proof]
fn c19_ffi_plain_time_accessors() {
    let (h, mi, s, ms, us, ns) = vk_time_fields();
    let core = temporal_rs::PlainTime::try_new(h, mi, s, ms, us, ns);
    let f = ffi::PlainTime::try_create(h, mi, s, ms, us, ns);
    assert!(core.is_ok() == f.is_ok());
    kani::cover!(f.is_ok());
    if let (Ok(c), Ok(f)) = (core, f) {
        assert!(f.hour() == c.hour() && f.hour() == h);
        assert!(f.minute() == c.minute() && f.minute() == mi);
        assert!(f.second() == c.second() && f.second() == s);
        assert!(f.millisecond() == c.millisecond() && f.millisecond() == ms);
        assert!(f.microsecond() == c.microsecond() && f.microsecond() == us);
        assert!(f.nanosecond() == c.nanosecond() && f.nanosecond() == ns);
    }
}

#[kani::proof]
fn c19_ffi_plain_time_create_constrains_like_core() {
    let (h, mi, s, ms, us, ns) = vk_time_fields();
    let core = temporal_rs::PlainTime::new(h, mi, s, ms, us, ns);
    let f = ffi::PlainTime::create(h, mi, s, ms, us, ns);
    assert!(core.is_ok() == f.is_ok());
    if let (Ok(c), Ok(f)) = (core, f) { assert!(f.0 == c); }
}

#[kani::proof]
fn c19_ffi_partial_time_record() {
    let (h, mi, s, ms, us, ns) = vk_time_fields();
    let (a, b, c, d, e, g): (bool, bool, bool, bool, bool, bool) = (kani::any(), kani::any(), kani::any(), kani::any(), kani::any(), kani::any());
    let p = ffi::PartialTime {
        hour: if a { Some(h).into() } else { None.into() }, minute: if b { Some(mi).into() } else { None.into() }, second: if c { Some(s).into() } else { None.into() },
        millisecond: if d { Some(ms).into() } else { None.into() }, microsecond: if e { Some(us).into() } else { None.into() }, nanosecond: if g { Some(ns).into() } else { None.into() },
    };
    let t: temporal_rs::partial::PartialTime = p.into();
    assert!(t.hour == if a { Some(h) } else { None });
    assert!(t.minute == if b { Some(mi) } else { None });
    assert!(t.second == if c { Some(s) } else { None });
    assert!(t.millisecond == if d { Some(ms) } else { None });
    assert!(t.microsecond == if e { Some(us) } else { None });
    assert!(t.nanosecond == if g { Some(ns) } else { None });
}
