// inject: src/parsers/timezone.rs
// C12: the UTC-offset parser behind TimeZone identifiers and UtcOffset::from_str accepts exactly ±HH, ±HHMM, ±HH:MM
// (hours 00-23, minutes 00-59) and yields sign x (60 x HH + MM); a string that does not start with a sign is "not an
// offset" (Ok(None)); everything else is a RangeError.  On the UNMODIFIED code.

const VK_ALPHA: [u8; 16] = [b'+', b'-', b'0', b'1', b'2', b'3', b'4', b'5', b'6', b'9', b':', b'.', b',', b'Z', b'a', b'/'];

fn vk_digit(b: u8) -> Option<i16> { if b >= b'0' && b <= b'9' { Some((b - b'0') as i16) } else { None } }

/// the grammar, written from the statement
fn vk_offset_oracle(s: &[u8]) -> Result<Option<i16>, ()> {
    if s.is_empty() || (s[0] != b'+' && s[0] != b'-') { return Ok(None); }
    let sign: i16 = if s[0] == b'+' { 1 } else { -1 };
    let two = |i: usize| -> Option<i16> { if i + 1 < s.len() { Some(vk_digit(s[i])? * 10 + vk_digit(s[i + 1])?) } else { None } };
    let (h, m) = match s.len() {
        3 => (two(1), Some(0)),
        5 => (two(1), two(3)),
        6 => if s[3] == b':' { (two(1), two(4)) } else { (None, None) },
        _ => (None, None),
    };
    match (h, m) {
        (Some(h), Some(m)) if h < 24 && m < 60 => Ok(Some(sign * (h * 60 + m))),
        _ => Err(()),
    }
}

// bounded: every string of at most 7 characters over the 16-character alphabet + - 0-6 9 : . , Z a / (loop-free parser, so no unwind bound is involved; the bound is the string length)
// timeout: 1200
#[kani::proof]
fn c12_parse_offset_grammar() {
    let n: usize = kani::any();
    kani::assume(n <= 7);
    let mut buf = [b'0'; 7];
    let idx: [u8; 7] = kani::any();
    let mut k = 0;
    while k < 7 { kani::assume(idx[k] < 16); buf[k] = VK_ALPHA[idx[k] as usize]; k += 1; }
    let s = unsafe { core::str::from_utf8_unchecked(&buf[..n]) };
    kani::cover!(n == 6 && buf[3] == b':');
    let got = parse_offset(&mut s.chars().peekable());
    match (got, vk_offset_oracle(&buf[..n])) {
        (Ok(a), Ok(b)) => assert!(a == b),
        (Err(e), Err(())) => assert!(e.kind() == crate::error::ErrorKind::Range),
        (Ok(_), Err(())) => assert!(false, "accepted a string outside the offset grammar"),
        (Err(_), Ok(_)) => assert!(false, "rejected a string of the offset grammar"),
    }
}

/// non-ASCII numeric characters never reach the digit conversion: no panic, and such a string is never an offset (C03 / C12)
// bounded: 16 fixed strings with a multi-byte numeric character (Arabic-Indic / full-width digits, vulgar fraction, superscript) in each digit position
// timeout: 1200
#[kani::proof]
fn c12_parse_offset_non_ascii() {
    let sel: u8 = kani::any();
    kani::assume(sel < 16);
    let s: &str = match sel {
        0 => "+\u{0660}\u{0665}:30", 1 => "+0\u{ff15}", 2 => "+1\u{00bd}", 3 => "-05:3\u{0660}", 4 => "+\u{0660}", 5 => "+1\u{0660}:00",
        6 => "+10:\u{0660}0", 7 => "+10\u{0660}0", 8 => "+10:0\u{0660}", 9 => "+\u{00b2}2", 10 => "-\u{ff11}\u{ff10}", 11 => "+100\u{00bd}",
        12 => "+10:00\u{0660}", 13 => "-\u{0660}\u{0660}\u{0660}\u{0660}", 14 => "+05\u{ff1a}30", _ => "+1\u{0663}30",
    };
    let got = parse_offset(&mut s.chars().peekable());
    assert!(got.is_err());
}

/// the characters of an IANA time-zone name component (C11 / C12): TZLeadingChar = ASCII letter . _ ; TZChar adds the
/// digits, + and - (so the Etc/GMT+N and Etc/GMT-N names, which the library prints, are accepted back)
// bounded: the 128 ASCII characters (non-ASCII letters are accepted by is_alphabetic and then fail the identifier lookup)
// the Unicode table behind char::is_alphabetic is guarded by `c > '\x7f'`, unreachable here: unwind 2 with unwinding assertions on
#[kani::proof]
#[kani::unwind(2)]
fn c12_tz_name_characters() {
    let b: u8 = kani::any();
    kani::assume(b < 128);
    let c = b as char;
    let letter = (b >= b'a' && b <= b'z') || (b >= b'A' && b <= b'Z');
    let lead = letter || b == b'.' || b == b'_';
    let digit = b >= b'0' && b <= b'9';
    assert!(is_tz_leading_char(&c) == lead);
    assert!(is_tz_char(&c) == (lead || digit || b == b'+' || b == b'-'));
    assert!(is_ascii_sign(&c) == (b == b'+' || b == b'-'));
    assert!(is_slash(&c) == (b == b'/'));
}
