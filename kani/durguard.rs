// inject: src/builtins/core/duration.rs
// C06: Duration::is_time_duration, the guard by which Instant / PlainTime add and subtract refuse calendar and day units,
// on the UNMODIFIED code over all finite integral doubles.

fn vg_f() -> FiniteF64 {
    let x: f64 = kani::any();
    kani::assume(x.is_finite());
    kani::assume(x == x.trunc());
    FiniteF64(x)
}

/// Duration::is_time_duration (the guard of Instant / PlainTime add and subtract): true exactly when years, months, weeks AND
/// days are all zero - whatever the time fields hold (the contract Verus assumes for it in unit dtdiff)
// bounded: iterates the 4 date fields (a field iteration over all 10 stays inside the bound too); unwind 12 with unwinding assertions on, hence complete
#[kani::proof]
#[kani::unwind(12)]
fn c06_is_time_duration() {
    let f = [vg_f(), vg_f(), vg_f(), vg_f(), vg_f(), vg_f(), vg_f(), vg_f(), vg_f(), vg_f()];
    let d = Duration::new_unchecked(DateDuration::new_unchecked(f[0], f[1], f[2], f[3]), TimeDuration::new_unchecked(f[4], f[5], f[6], f[7], f[8], f[9]));
    let want = f[0].0 == 0.0 && f[1].0 == 0.0 && f[2].0 == 0.0 && f[3].0 == 0.0;
    kani::cover!(!want && f[0].0 == 0.0 && f[1].0 == 0.0 && f[2].0 == 0.0);
    assert!(d.is_time_duration() == want);
}
