// inject: src/builtins/core/duration.rs
// C11: duration_to_formattable - the record handed to the duration writer denotes the duration: the date fields are the
// fields' magnitudes (days up to the duration limit, beyond 32 bits), hours and minutes their magnitudes, and seconds /
// sub-seconds the exact fold of seconds, milliseconds, microseconds and nanoseconds. On the UNMODIFIED code.

fn vkf_int(lo: i64, hi: i64) -> (FiniteF64, i64) {
    let v: i64 = kani::any();
    kani::assume(v >= lo && v <= hi);
    (FiniteF64(v as f64), v)
}

/// date fields: magnitudes are carried over exactly (years/months/weeks below 2^32, days up to 104_249_991_374)
// bounded: time fields zero; one sign for all four date fields; unwind 11 (the ten-field sign loop) with unwinding assertions on
// timeout: 900
#[kani::proof]
#[kani::unwind(11)]
fn c11_duration_to_formattable_date_fields() {
    let neg: bool = kani::any();
    let (_, y) = vkf_int(0, 4_294_967_295);
    let (_, mo) = vkf_int(0, 4_294_967_295);
    let (_, w) = vkf_int(0, 4_294_967_295);
    let (_, d) = vkf_int(0, 104_249_991_374);
    let sg = if neg { -1.0 } else { 1.0 };
    let z = FiniteF64::default();
    let dur = Duration::new_unchecked(
        DateDuration::new_unchecked(FiniteF64(sg * y as f64), FiniteF64(sg * mo as f64), FiniteF64(sg * w as f64), FiniteF64(sg * d as f64)),
        TimeDuration::new_unchecked(z, z, z, z, z, z));
    kani::cover!(d > 4_294_967_296 && neg);
    let r = duration_to_formattable(&dur, Precision::Auto);
    let Ok(f) = r else { assert!(false, "duration_to_formattable failed"); return; };
    if y == 0 && mo == 0 && w == 0 && d == 0 {
        assert!(f.date.is_none());
    } else {
        let Some(date) = f.date else { assert!(false, "date part dropped"); return; };
        assert!(date.years as i64 == y && date.months as i64 == mo && date.weeks as i64 == w && date.days as i64 == d);
        assert!((f.sign == Sign::Negative) == neg);
    }
}

/// time fields: hours and minutes carried over, seconds/sub-seconds = exact fold of s, ms, us, ns
// bounded: date fields zero; hours, minutes < 2^40; seconds < 1000, ms, us, ns < 2048 each (enough for every carry between them); one sign; unwind 11 with unwinding assertions on
// timeout: 600
#[kani::proof]
#[kani::unwind(11)]
fn c11_duration_to_formattable_time_fields() {
    let neg: bool = kani::any();
    let (_, h) = vkf_int(0, 1_099_511_627_775);
    let (_, mi) = vkf_int(0, 1_099_511_627_775);
    let (_, s) = vkf_int(0, 999);
    let (_, ms) = vkf_int(0, 2047);
    let (_, us) = vkf_int(0, 2047);
    let (_, ns) = vkf_int(0, 2047);
    let sg = if neg { -1.0 } else { 1.0 };
    let z = FiniteF64::default();
    let dur = Duration::new_unchecked(
        DateDuration::new_unchecked(z, z, z, z),
        TimeDuration::new_unchecked(FiniteF64(sg * h as f64), FiniteF64(sg * mi as f64), FiniteF64(sg * s as f64), FiniteF64(sg * ms as f64), FiniteF64(sg * us as f64), FiniteF64(sg * ns as f64)));
    let r = duration_to_formattable(&dur, Precision::Auto);
    let Ok(f) = r else { assert!(false, "duration_to_formattable failed"); return; };
    assert!(f.date.is_none());
    let total: i128 = s as i128 * 1_000_000_000 + ms as i128 * 1_000_000 + us as i128 * 1_000 + ns as i128;
    match f.time {
        Some(FormattableTimeDuration::Seconds(fh, fm, fs, Some(sub))) => {
            assert!(fh as i64 == h && fm as i64 == mi);
            assert!(fs as i128 == total / 1_000_000_000 && sub as i128 == total % 1_000_000_000);
        }
        _ => assert!(false, "time part has an unexpected shape"),
    }
}
