// Feasibility probe (round 0): exec `/` and `%` on signed integers are specified through
// vstd::arithmetic::div_mod::{rust_div, rust_rem}; contracts must mention them, otherwise the
// definition is not triggered and `rm == a % d` is not provable even for a >= 0.
use vstd::prelude::*;
use vstd::arithmetic::div_mod::*;
verus! {
fn t(a: i64, d: i64) requires a >= 0, d > 0 {
    let rm = a % d;
    assert(rm == rust_rem(a as int, d as int));
    assert(rm as int == (a as int) % (d as int));
}
fn t2(a: i128, d: i128) requires d > 0, a > i128::MIN {
    let rm = a % d;
    let q = a / d;
    assert(rm == rust_rem(a as int, d as int));
    assert(q == rust_div(a as int, d as int));
    if a < 0 {
      assert(rm == -((-a) as int % d as int));
      assert(q == -((-a) as int / d as int));
    }
}
}
fn main() {}
