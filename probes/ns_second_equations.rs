// Feasibility probe (round 0): the 2 939 745 / 2^32 stage of Neri-Schneider; real function
// bodies from src/utils/neri_schneider.rs with contracts and one proof block spliced in.
// `verus ns_second_equations.rs` -> 11 verified, 0 errors (1.6 s).
// Mutations tried: constant 2_939_746 in p2 still verifies (equivalent on the domain);
// 2_939_000, or `.div_euclid(2_939_746)`, fail with "postcondition not satisfied".
use vstd::prelude::*;
verus! {
pub assume_specification [<u32>::div_euclid] (a: u32, b: u32) -> (r: u32)
    requires b != 0,
    ensures r == a / b;
pub assume_specification [<u32>::rem_euclid] (a: u32, b: u32) -> (r: u32)
    requires b != 0,
    ensures r == a % b;
pub assume_specification [<u64>::div_euclid] (a: u64, b: u64) -> (r: u64)
    requires b != 0,
    ensures r == a / b;
pub assume_specification [<u64>::rem_euclid] (a: u64, b: u64) -> (r: u64)
    requires b != 0,
    ensures r == a % b;

pub const DAYS_IN_A_400Y_CYCLE: u32 = 146_097;
const TWO_POWER_THIRTY_TWO: u64 = 4_294_967_296; // 2^32 constant

proof fn lemma_or3(x: u32)
    ensures (x | 3) == (x / 4) * 4 + 3,
{
    assert((x | 3) == (x / 4) * 4 + 3) by (bit_vector);
}

proof fn lemma_magic(n2: int, q: int, r: int)
    requires 0 <= q < 100, 0 <= r < 1461, n2 == 1461 * q + r,
    ensures (2939745 * n2) / 4294967296 == q,
            ((2939745 * n2) % 4294967296) / 2939745 == r,
{
    assert(2939745 * n2 == q * 4294967296 + (149 * q + 2939745 * r)) by (nonlinear_arith)
        requires n2 == 1461 * q + r;
    let rem = 149 * q + 2939745 * r;
    assert(0 <= rem < 4294967296) by (nonlinear_arith) requires 0 <= q < 100, 0 <= r < 1461, rem == 149 * q + 2939745 * r;
    vstd::arithmetic::div_mod::lemma_fundamental_div_mod_converse(2939745 * n2, 4294967296, q, rem);
    assert(2939745 * r <= rem < 2939745 * r + 2939745) by (nonlinear_arith) requires 0 <= q < 100, rem == 149 * q + 2939745 * r;
    vstd::arithmetic::div_mod::lemma_fundamental_div_mod_converse(rem, 2939745, r, 149 * q);
}

const fn n_one(rata_die: u32) -> (r: u32)
    requires rata_die < 1_000_000_000,
    ensures r == 4 * rata_die + 3,
{
    4 * rata_die + 3
}
const fn first_equations(rata_die: u32) -> (r: (u32, u32))
    requires rata_die < 1_000_000_000,
    ensures r.0 == (4 * rata_die + 3) / 146097, r.1 == (4 * rata_die + 3) % 146097,
{
    let n_one = n_one(rata_die);
    let century_rem = n_one.rem_euclid(146_097);
    let century_num = n_one.div_euclid(DAYS_IN_A_400Y_CYCLE);
    (century_num, century_rem)
}

const fn second_equations(rata_die: u32) -> (res: (u32, u32))
    requires rata_die < 1_000_000_000,
    ensures
        res.0 == 100 * ((4 * rata_die + 3) / 146097) + (((4 * rata_die + 3) % 146097) / 4 * 4 + 3) / 1461,
        res.1 == ((((4 * rata_die + 3) % 146097) / 4 * 4 + 3) % 1461) / 4,
{
    let (century, rem) = first_equations(rata_die);
    let n_two = rem | 3;
    proof { lemma_or3(rem);
        let n2 = n_two as int;
        lemma_magic(n2, n2 / 1461, n2 % 1461);
    }
    let p2 = 2_939_745 * n_two as u64;
    let year_of_century = p2.div_euclid(TWO_POWER_THIRTY_TWO) as u32;
    let day_of_year = p2
        .rem_euclid(TWO_POWER_THIRTY_TWO)
        .div_euclid(2_939_745)
        .div_euclid(4) as u32;
    let year = 100 * century + year_of_century;
    (year, day_of_year)
}
}
fn main() {}
