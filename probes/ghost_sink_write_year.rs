use vstd::prelude::*;
use vstd::arithmetic::div_mod::*;
verus! {
pub struct FmtError;
pub type FmtResult = Result<(), FmtError>;
pub struct Sink { pub out: Ghost<Seq<char>> }

pub open spec fn digit_char(n: int) -> char { (('0' as u8) + n as u8) as char }
impl Sink {
    #[verifier::external_body]
    pub fn write_char(&mut self, c: char) -> (r: FmtResult)
        ensures r is Ok, final(self).out@ == old(self).out@.push(c) { unimplemented!() }
    // assumed contract of writeable's integer impl, restricted to one-digit values (all this code needs)
    #[verifier::external_body]
    pub fn write_i32(&mut self, n: i32) -> (r: FmtResult)
        requires 0 <= n < 10,
        ensures r is Ok, final(self).out@ == old(self).out@.push(digit_char(n as int)) { unimplemented!() }
}

fn write_four_digit_year(mut y: i32, sink: &mut Sink) -> (r: FmtResult)
    requires 0 <= y <= 9999,
    ensures r is Ok, final(sink).out@ == old(sink).out@.push(digit_char(y as int / 1000)).push(digit_char(y as int / 100 % 10)).push(digit_char(y as int / 10 % 10)).push(digit_char(y as int % 10)),
{
    let ghost y0 = y as int;
    sink.write_i32(y / 1_000)?;
    y = y % 1_000;
    assert(y == rust_rem(y0, 1000) && y == y0 % 1000);
    sink.write_i32(y / 100)?;
    let ghost y1 = y as int;
    y = y % 100;
    assert(y == rust_rem(y1, 100) && y == y0 % 100);
    sink.write_i32(y / 10)?;
    let ghost y2 = y as int;
    y = y % 10;
    assert(y == rust_rem(y2, 10) && y == y0 % 10);
    sink.write_i32(y)
}
}
fn main() {}
