// Feasibility probe (round 0): Display/FromStr text tables with spec mirrors (rule E9).
// `verus enum_text_roundtrip.rs` -> 3 verified. Changing "millisecond" to "millsecond" in
// display_spec makes `roundtrip` fail with "postcondition not satisfied".
use vstd::prelude::*;
use vstd::string::*;
verus! {
#[derive(Clone, Copy, PartialEq, Eq)]
pub enum Unit { Auto, Millisecond, Day }

pub open spec fn from_str_spec(s: &str) -> Result<Unit, u8> {
    if s == "auto" { Ok(Unit::Auto) }
    else if s == "millisecond" || s == "milliseconds" { Ok(Unit::Millisecond) }
    else if s == "day" || s == "days" { Ok(Unit::Day) }
    else { Err(0) }
}
fn from_str(s: &str) -> (r: Result<Unit, u8>)
  ensures r == from_str_spec(s)
{
    match s {
        "auto" => Ok(Unit::Auto),
        "millisecond" | "milliseconds" => Ok(Unit::Millisecond),
        "day" | "days" => Ok(Unit::Day),
        _ => Err(0),
    }
}
pub open spec fn display_spec(u: Unit) -> &'static str {
    match u {
        Unit::Auto => "auto",
        Unit::Millisecond => "millisecond",
        Unit::Day => "day",
    }
}
proof fn roundtrip(u: Unit)
  ensures from_str_spec(display_spec(u)) == Ok::<Unit, u8>(u)
{
    reveal_strlit("auto"); reveal_strlit("millisecond"); reveal_strlit("milliseconds"); reveal_strlit("day"); reveal_strlit("days");
}
}
fn main() {}
