use vstd::prelude::*;
use vstd::arithmetic::div_mod::*;
use vstd::arithmetic::mul::*;
use core::cmp::Ordering;
verus! {
pub assume_specification [<i128>::rem_euclid] (a: i128, b: i128) -> (r: i128)
    requires b != 0, !(a == i128::MIN && b == -1),
    ensures b > 0 ==> r == (a as int) % (b as int);
pub assume_specification [<u128>::rem_euclid] (a: u128, b: u128) -> (r: u128)
    requires b != 0,
    ensures r == a % b;
pub assume_specification [<i128>::abs] (a: i128) -> (r: i128)
    requires a != i128::MIN,
    ensures r == if a < 0 { -(a as int) } else { a as int };

#[derive(Clone, Copy, PartialEq, Eq, Structural)]
pub enum RoundingMode { Ceil, Floor, Expand, Trunc, HalfCeil, HalfFloor, HalfExpand, HalfTrunc, HalfEven }
#[derive(Clone, Copy, PartialEq, Eq, Structural)]
pub enum UnsignedRoundingMode { Infinity, Zero, HalfInfinity, HalfZero, HalfEven }

// ================= SPEC (from the property statement) =================
pub open spec fn sabs(x: int) -> int { if x < 0 { -x } else { x } }
/// the multiple of inc adjacent to x selected by mode; x itself if already a multiple
pub open spec fn round_spec(x: int, inc: int, mode: RoundingMode) -> int
    recommends inc > 0
{
    let lo = (x / inc) * inc;           // floor multiple (Euclidean div, inc > 0)
    let r = x % inc;                    // 0 <= r < inc
    let hi = lo + inc;
    let away = if x >= 0 { hi } else { lo };
    let toward = if x >= 0 { lo } else { hi };
    let even = if (x / inc) % 2 == 0 { lo } else { hi };
    if r == 0 { x } else {
        match mode {
            RoundingMode::Ceil => hi,
            RoundingMode::Floor => lo,
            RoundingMode::Expand => away,
            RoundingMode::Trunc => toward,
            _ => if 2 * r < inc { lo } else if 2 * r > inc { hi } else {
                match mode {
                    RoundingMode::HalfCeil => hi,
                    RoundingMode::HalfFloor => lo,
                    RoundingMode::HalfExpand => away,
                    RoundingMode::HalfTrunc => toward,
                    _ => even,
                }
            }
        }
    }
}

// ================= REAL CODE (rounding.rs, T := i128) =================
pub const fn get_unsigned_round_mode(mode: RoundingMode, is_positive: bool) -> (r: UnsignedRoundingMode)
    ensures r == um(mode, is_positive),
{
    use RoundingMode::{Ceil, Expand, Floor, HalfCeil, HalfEven, HalfExpand, HalfFloor, HalfTrunc, Trunc};
    match mode {
        Ceil if is_positive => UnsignedRoundingMode::Infinity,
        Ceil | Trunc => UnsignedRoundingMode::Zero,
        Floor if is_positive => UnsignedRoundingMode::Zero,
        Floor | Expand => UnsignedRoundingMode::Infinity,
        HalfCeil if is_positive => UnsignedRoundingMode::HalfInfinity,
        HalfCeil | HalfTrunc => UnsignedRoundingMode::HalfZero,
        HalfFloor if is_positive => UnsignedRoundingMode::HalfZero,
        HalfFloor | HalfExpand => UnsignedRoundingMode::HalfInfinity,
        HalfEven => UnsignedRoundingMode::HalfEven,
    }
}

fn is_exact(dividend: i128, divisor: i128) -> (r: bool)
    requires divisor > 0,
    ensures r == ((dividend as int) % (divisor as int) == 0),
{
    dividend.rem_euclid(divisor) == 0
}

fn quotient_abs(dividend: i128, divisor: i128) -> (r: i128)
    requires divisor > 0, dividend > i128::MIN,
    ensures r == sabs(dividend as int) / (divisor as int),
{
    let q = dividend / divisor;
    proof { assert(q == rust_div(dividend as int, divisor as int)); if dividend < 0 { lemma_neg_mod(dividend as int, divisor as int); } }
    q.abs()
}

fn compare_remainder(dividend: i128, divisor: i128) -> (r: Option<Ordering>)
    requires divisor > 0, dividend > i128::MIN, divisor < 0x2000_0000_0000_0000_0000_0000_0000_0000,
    ensures r is Some,
        ({ let rem = sabs(dividend as int) % (divisor as int);
           (2 * rem < divisor ==> r == Some(Ordering::Less)) &&
           (2 * rem == divisor ==> r == Some(Ordering::Equal)) &&
           (2 * rem > divisor ==> r == Some(Ordering::Greater)) }),
{
    let a = dividend.abs();
    let rm = a % divisor;
    proof { assert(rm == rust_rem(a as int, divisor as int)); 
        assert(a as int == sabs(dividend as int));
        assert(rm as int == sabs(dividend as int) % (divisor as int)); }
    let c = (rm * 2).cmp(&divisor);
    assert(rm * 2 < divisor ==> c == Ordering::Less);
    assert(rm * 2 == divisor ==> c == Ordering::Equal);
    assert(rm * 2 > divisor ==> c == Ordering::Greater);
    Some(c)
}

fn result_floor(dividend: i128, divisor: i128) -> (r: u128)
    requires divisor > 0, dividend > i128::MIN,
    ensures r == sabs(dividend as int) / (divisor as int),
{
    quotient_abs(dividend, divisor) as u128
}
fn result_ceil(dividend: i128, divisor: i128) -> (r: u128)
    requires divisor > 0, dividend > i128::MIN,
    ensures r == sabs(dividend as int) / (divisor as int) + 1,
{
    quotient_abs(dividend, divisor) as u128 + 1
}
fn is_even_cardinal(dividend: i128, divisor: i128) -> (r: bool)
    requires divisor > 0, dividend > i128::MIN,
    ensures r == ((sabs(dividend as int) / (divisor as int)) % 2 == 0),
{
    result_floor(dividend, divisor).rem_euclid(2) == 0
}

pub open spec fn unsigned_spec(a: int, inc: int, m: UnsignedRoundingMode) -> int {
    let q = a / inc; let r = a % inc;
    if r == 0 { q } else { match m {
        UnsignedRoundingMode::Zero => q,
        UnsignedRoundingMode::Infinity => q + 1,
        _ => if 2 * r < inc { q } else if 2 * r > inc { q + 1 } else { match m {
            UnsignedRoundingMode::HalfZero => q,
            UnsignedRoundingMode::HalfInfinity => q + 1,
            _ => if q % 2 == 0 { q } else { q + 1 },
        }}
    }}
}

fn apply_unsigned_rounding_mode(dividend: i128, divisor: i128, unsigned_rounding_mode: UnsignedRoundingMode) -> (r: u128)
    requires divisor > 0, dividend > i128::MIN, divisor < 0x2000_0000_0000_0000_0000_0000_0000_0000,
    ensures r == unsigned_spec(sabs(dividend as int), divisor as int, unsigned_rounding_mode),
{
    proof {
        // |x| % d == 0  <=>  x % d == 0
        lemma_abs_mod_zero(dividend as int, divisor as int);
    }
    if is_exact(dividend, divisor) {
        return result_floor(dividend, divisor);
    }
    if unsigned_rounding_mode == UnsignedRoundingMode::Zero {
        return result_floor(dividend, divisor);
    };
    if unsigned_rounding_mode == UnsignedRoundingMode::Infinity {
        return result_ceil(dividend, divisor);
    };
    match compare_remainder(dividend, divisor) {
        Some(Ordering::Less) => result_floor(dividend, divisor),
        Some(Ordering::Greater) => result_ceil(dividend, divisor),
        Some(Ordering::Equal) => {
            if unsigned_rounding_mode == UnsignedRoundingMode::HalfZero {
                return result_floor(dividend, divisor);
            };
            if unsigned_rounding_mode == UnsignedRoundingMode::HalfInfinity {
                return result_ceil(dividend, divisor);
            };
            assert(unsigned_rounding_mode == UnsignedRoundingMode::HalfEven);
            if is_even_cardinal(dividend, divisor) {
                return result_floor(dividend, divisor);
            }
            result_ceil(dividend, divisor)
        }
        None => unreachable!(),
    }
}

proof fn lemma_abs_mod_zero(x: int, d: int)
    requires d > 0,
    ensures (sabs(x) % d == 0) == (x % d == 0),
{
    if x < 0 {
        lemma_neg_mod(x, d);
    }
}
proof fn lemma_neg_mod(x: int, d: int)
    requires d > 0, x < 0,
    ensures ((-x) % d == 0) == (x % d == 0),
            x % d != 0 ==> (-x) % d == d - x % d && (-x) / d == -(x / d) - 1,
            x % d == 0 ==> (-x) / d == -(x / d),
{
    lemma_fundamental_div_mod(x, d);
    let q = x / d; let r = x % d;
    if r == 0 {
        assert(-x == (-q) * d) by (nonlinear_arith) requires x == d * q;
        lemma_fundamental_div_mod_converse(-x, d, -q, 0);
    } else {
        assert(-x == (-q - 1) * d + (d - r)) by (nonlinear_arith) requires x == d * q + r;
        lemma_fundamental_div_mod_converse(-x, d, -q - 1, d - r);
    }
}


pub open spec fn um(mode: RoundingMode, pos: bool) -> UnsignedRoundingMode {
    match mode {
        RoundingMode::Ceil => if pos { UnsignedRoundingMode::Infinity } else { UnsignedRoundingMode::Zero },
        RoundingMode::Floor => if pos { UnsignedRoundingMode::Zero } else { UnsignedRoundingMode::Infinity },
        RoundingMode::Expand => UnsignedRoundingMode::Infinity,
        RoundingMode::Trunc => UnsignedRoundingMode::Zero,
        RoundingMode::HalfCeil => if pos { UnsignedRoundingMode::HalfInfinity } else { UnsignedRoundingMode::HalfZero },
        RoundingMode::HalfFloor => if pos { UnsignedRoundingMode::HalfZero } else { UnsignedRoundingMode::HalfInfinity },
        RoundingMode::HalfExpand => UnsignedRoundingMode::HalfInfinity,
        RoundingMode::HalfTrunc => UnsignedRoundingMode::HalfZero,
        RoundingMode::HalfEven => UnsignedRoundingMode::HalfEven,
    }
}

proof fn lemma_round_sign(x: int, d: int, mode: RoundingMode)
    requires d > 0,
    ensures round_spec(x, d, mode) == (if x >= 0 { unsigned_spec(x, d, um(mode, true)) * d } else { -(unsigned_spec(-x, d, um(mode, false)) * d) }),
{
    lemma_fundamental_div_mod(x, d);
    let q = x / d; let r = x % d;
    if x >= 0 {
        assert((q + 1) * d == q * d + d) by (nonlinear_arith);
        assert(q * d == d * q) by (nonlinear_arith);
    } else {
        lemma_neg_mod(x, d);
        lemma_fundamental_div_mod(-x, d);
        let qa = (-x) / d; let ra = (-x) % d;
        if r == 0 {
            assert(qa == -q);
            assert(-(qa * d) == x) by (nonlinear_arith) requires qa == -q, x == d * q;
        } else {
            assert(qa == -q - 1 && ra == d - r);
            assert(-(qa * d) == q * d + d) by (nonlinear_arith) requires qa == -q - 1;
            assert(-((qa + 1) * d) == q * d) by (nonlinear_arith) requires qa == -q - 1;
            // parity: qa even <=> q odd
            assert((qa % 2 == 0) == (q % 2 != 0)) by {
                lemma_fundamental_div_mod(q, 2); lemma_fundamental_div_mod(qa, 2);
            }
        }
    }
}

pub struct IncrementRounder { pub sign: bool, pub dividend: i128, pub divisor: i128 }

fn round(this: &IncrementRounder, mode: RoundingMode) -> (r: i128)
    requires this.divisor > 0, this.divisor < 0x1_0000_0000_0000_0000_0000_0000, 
             -0x1000_0000_0000_0000_0000_0000_0000_0000 < this.dividend < 0x1000_0000_0000_0000_0000_0000_0000_0000,
             this.sign == (this.dividend >= 0),
    ensures r == round_spec(this.dividend as int, this.divisor as int, mode),
{
    let unsigned_rounding_mode = get_unsigned_round_mode(mode, this.sign);
    proof { lemma_round_sign(this.dividend as int, this.divisor as int, mode); }
    proof {
        let x = this.dividend as int; let d = this.divisor as int;
        lemma_fundamental_div_mod(x, d);
        lemma_fundamental_div_mod(sabs(x), d);
        if x < 0 { lemma_neg_mod(x, d); }
        lemma_div_pos_is_pos(sabs(x), d);
        assert(sabs(x) / d <= sabs(x)) by { lemma_div_is_ordered_by_denominator(sabs(x), 1, d); lemma_div_basics(sabs(x)); }
        lemma_mul_inequality(sabs(x) / d + 1, 0x1000_0000_0000_0000_0000_0000_0000_0000int + 1, d);
        lemma_mul_is_commutative(sabs(x) / d + 1, d);
    }
    let u = apply_unsigned_rounding_mode(this.dividend, this.divisor, unsigned_rounding_mode);
    proof {
        let x = this.dividend as int; let d = this.divisor as int;
        assert(u as int == unsigned_spec(sabs(x), d, um(mode, this.sign)));
        assert(u as int <= sabs(x) / d + 1);
        assert(sabs(x) / d <= sabs(x));
    }
    let mut rounded = u as i128;
    if !this.sign {
        rounded = -rounded;
    }
    proof {
        let x = this.dividend as int; let d = this.divisor as int;
        assert(u as int * d <= (sabs(x) / d + 1) * d) by (nonlinear_arith) requires u as int <= sabs(x) / d + 1, d > 0;
        assert((sabs(x) / d + 1) * d <= sabs(x) + d) by (nonlinear_arith) requires sabs(x) == d * (sabs(x) / d) + sabs(x) % d, 0 <= sabs(x) % d;
        assert((-(u as int)) * d == -(u as int * d)) by (nonlinear_arith);
        assert(0 <= u as int * d) by (nonlinear_arith) requires u as int >= 0, d > 0;
    }
    rounded * this.divisor
}
}
fn main() {}
