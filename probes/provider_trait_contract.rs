// Feasibility probe (round 0): code generic over a provider trait is verified against the
// trait's contract, i.e. for every implementation (C13/C14). `verus ...` -> 1 verified.
use vstd::prelude::*;
verus! {
pub struct Err1 { pub kind: u8 }
pub trait TimeZoneProvider {
    spec fn off(&self, id: Seq<char>, t: int) -> int;
    fn get_named_tz_offset_seconds(&self, identifier: &str, epoch_ns: i128) -> (r: Result<i64, Err1>)
        ensures r is Ok ==> r->Ok_0 == self.off(identifier@, epoch_ns as int),
                r is Ok ==> -86400 < r->Ok_0 < 86400;
    fn get_named_tz_epoch_nanoseconds(&self, identifier: &str, local_ns: i128) -> (r: Result<Vec<i128>, Err1>)
        ensures r is Ok ==> (forall|i: int| 0 <= i < r->Ok_0@.len() ==> (#[trigger] r->Ok_0@[i]) + self.off(identifier@, r->Ok_0@[i] as int) * 1_000_000_000 == local_ns);
}

pub fn pick(p: &impl TimeZoneProvider, id: &str, local_ns: i128) -> (r: Result<i128, Err1>)
    requires -(1i128 << 100) < local_ns < (1i128 << 100),
    ensures r is Ok ==> r->Ok_0 + p.off(id@, r->Ok_0 as int) * 1_000_000_000 == local_ns,
{
    let v = p.get_named_tz_epoch_nanoseconds(id, local_ns)?;
    let n = v.len();
    if n == 0 { return Err(Err1{kind: 2}); }
    Ok(v[n - 1])
}
}
fn main() {}
