use vstd::prelude::*;
verus! {
pub open spec fn pow10(n: nat) -> nat decreases n { if n == 0 { 1 } else { 10 * pow10((n - 1) as nat) } }
pub open spec fn digits_value(d: Seq<u8>, from: int) -> nat 
  decreases d.len() - from
{
    if from >= d.len() { 0 } else { (d[from] as nat) * pow10((d.len() - 1 - from) as nat) + digits_value(d, from + 1) }
}
pub fn u32_to_digits(mut value: u32) -> (r: ([u8; 9], usize))
    requires value < 1_000_000_000,
    ensures forall|k: int| 0 <= k < 9 ==> r.0@[k] < 10,
            r.1 <= 9,
            forall|k: int| r.1 <= k < 9 ==> r.0@[k] == 0,
            r.1 > 0 ==> r.0@[r.1 as int - 1] != 0,
{
    let mut output = [0; 9];
    let mut precision = 0;
    let mut i = 9;
    while i != 0 
        invariant 0 <= i <= 9, precision <= 9,
          forall|k: int| 0 <= k < 9 ==> output@[k] < 10,
          precision == 0 ==> forall|k: int| i <= k < 9 ==> output@[k] == 0,
          precision > 0 ==> (i < precision && output@[precision as int - 1] != 0 && forall|k: int| precision <= k < 9 ==> output@[k] == 0),
        decreases i
    {
        let v = (value % 10) as u8;
        value /= 10;
        if precision == 0 && v != 0 {
            precision = i;
        }
        output[i - 1] = v;
        i -= 1;
    }
    (output, precision)
}
}
fn main() {}
