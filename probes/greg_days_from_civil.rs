// Feasibility probe (round 0): real epoch_days_from_gregorian_date / rata_die_first_equations bodies proved equal to a
// spec built from the Gregorian rule only, for every year in [-1 467 999, 1 471 744]. `verus` -> 11 verified, <1 s.
// Mutants (979->980, century/4 -> century/5) fail with "postcondition not satisfied".
use vstd::prelude::*;
verus! {
pub const EPOCH_COMPUTATIONAL_RATA_DIE: i32 = 719_468;
pub const DAYS_IN_A_400Y_CYCLE: u32 = 146_097;
const SHIFT_CONSTANT: i32 = 3670;

// ---- spec from the Gregorian rule ----
pub open spec fn is_leap(y: int) -> bool { y % 4 == 0 && (y % 100 != 0 || y % 400 == 0) }
/// days from 0000-01-01 (proleptic, astronomical year 0) to y-01-01, by counting leap years before y
pub open spec fn days_before_year(y: int) -> int {
    365 * y + (y + 3) / 4 - (y + 99) / 100 + (y + 399) / 400
}
pub open spec fn cum(m: int) -> int {
    if m == 1 { 0 } else if m == 2 { 31 } else if m == 3 { 59 } else if m == 4 { 90 } else if m == 5 { 120 }
    else if m == 6 { 151 } else if m == 7 { 181 } else if m == 8 { 212 } else if m == 9 { 243 }
    else if m == 10 { 273 } else if m == 11 { 304 } else { 334 }
}
pub open spec fn days_from_civil(y: int, m: int, d: int) -> int {
    days_before_year(y) + cum(m) + (if m > 2 && is_leap(y) { 1int } else { 0int }) + (d - 1) - 719528
}

const fn rata_die_first_equations(year: i32, month: u8, day: u8) -> (r: (u32, i32, i32, u32))
    requires -1_467_999 <= year <= 1_471_744, 1 <= month <= 12,
    ensures ({ let j: int = if month <= 2 { 1 } else { 0 };
        r.0 == year + 1_468_000 - j && r.1 == month + 12 * j && r.2 == day - 1 && r.3 == (year + 1_468_000 - j) / 100 }),
{
    let j = (month <= 2) as i32;
    let computational_year = (year + 400 * SHIFT_CONSTANT) - j;
    let computation_month = month as i32 + 12 * j;
    let computation_day = day as i32 - 1;
    (
        computational_year as u32,
        computation_month,
        computation_day,
        computational_year as u32 / 100,
    )
}

pub const fn epoch_days_from_gregorian_date(year: i32, month: u8, day: u8) -> (r: i32)
    requires -1_467_999 <= year <= 1_471_744, 1 <= month <= 12,
    ensures r == days_from_civil(year as int, month as int, day as int),
{
    let shift = SHIFT_CONSTANT * DAYS_IN_A_400Y_CYCLE as i32 + EPOCH_COMPUTATIONAL_RATA_DIE;
    let (comp_year, comp_month, comp_day, century) = rata_die_first_equations(year, month, day);
    let y_star = 1461 * comp_year / 4 - century + century / 4;
    let m_star = (979 * comp_month - 2919) / 32;
    proof { lemma_year(year as int, month as int); }
    (y_star as i32 + m_star + comp_day) - shift
}


pub open spec fn f(y: int) -> int { 365 * y + y / 4 - y / 100 + y / 400 }
pub open spec fn mtab(mm: int) -> int {
    if mm == 3 { 0 } else if mm == 4 { 31 } else if mm == 5 { 61 } else if mm == 6 { 92 } else if mm == 7 { 122 }
    else if mm == 8 { 153 } else if mm == 9 { 184 } else if mm == 10 { 214 } else if mm == 11 { 245 }
    else if mm == 12 { 275 } else if mm == 13 { 306 } else { 337 }
}
proof fn lemma_f_shift(y: int)
    ensures f(y + 1_468_000) == f(y) + 1_468_000 * 365 + 367_000 - 14_680 + 3_670,
{
    assert((y + 1_468_000) / 4 == y / 4 + 367_000);
    assert((y + 1_468_000) / 100 == y / 100 + 14_680);
    assert((y + 1_468_000) / 400 == y / 400 + 3_670);
}
proof fn lemma_f_dby(y: int)
    ensures f(y) == days_before_year(y) + (if is_leap(y) { 1int } else { 0int }) - 1,
{
    assert((y + 3) / 4 == y / 4 + (if y % 4 == 0 { 0int } else { 1int }));
    assert((y + 99) / 100 == y / 100 + (if y % 100 == 0 { 0int } else { 1int }));
    assert((y + 399) / 400 == y / 400 + (if y % 400 == 0 { 0int } else { 1int }));
    assert(y % 400 == 0 ==> y % 100 == 0);
    assert(y % 100 == 0 ==> y % 4 == 0);
}
proof fn lemma_f_step(y: int)
    ensures f(y) == f(y - 1) + 365 + (if is_leap(y) { 1int } else { 0int }),
{
    lemma_f_dby(y); lemma_f_dby(y - 1);
    assert((y + 3) / 4 == (y + 2) / 4 + (if (y - 1) % 4 == 0 { 1int } else { 0int }));
    assert((y + 99) / 100 == (y + 98) / 100 + (if (y - 1) % 100 == 0 { 1int } else { 0int }));
    assert((y + 399) / 400 == (y + 398) / 400 + (if (y - 1) % 400 == 0 { 1int } else { 0int }));
}
proof fn lemma_mstar(mm: int)
    requires 3 <= mm <= 14,
    ensures (979 * mm - 2919) / 32 == mtab(mm),
{
}
proof fn lemma_year(y: int, m: int)
    requires -1_467_999 <= y <= 1_471_744, 1 <= m <= 12,
    ensures ({ let j: int = if m <= 2 { 1 } else { 0 }; let yy = y + 1_468_000 - j; let c = yy / 100; let mm = m + 12 * j;
        1461 * yy / 4 - c + c / 4 + (979 * mm - 2919) / 32 - 536_895_458 == days_from_civil(y, m, 1) }),
{
    let j: int = if m <= 2 { 1 } else { 0 };
    let yy = y + 1_468_000 - j;
    let c = yy / 100;
    let mm = m + 12 * j;
    assert(1461 * yy / 4 == 365 * yy + yy / 4);
    assert(c / 4 == yy / 400);
    assert(1461 * yy / 4 - c + c / 4 == f(yy));
    lemma_f_shift(y - j);
    lemma_mstar(mm);
    lemma_f_dby(y);
    if j == 1 { lemma_f_step(y); }
    // constants: 1468000*365 + 367000 - 14680 + 3670 = 536175990 ; 536895458 - 536175990 = 719468 ; 719528 - 719468 = 60 = 31 + 29 (Jan+Feb of year 0) 
    assert(f(yy) == f(y - j) + 536_175_990);
}

proof fn sanity()
    ensures days_from_civil(1970, 1, 1) == 0, days_from_civil(2000, 3, 1) == 11017,
            days_from_civil(-271821, 4, 19) == -100_000_001, days_from_civil(275760, 9, 13) == 100_000_000,
{ }
}
fn main() {}
